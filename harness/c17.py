"""C17 - design conditions lie on the contour at the requested abscissa, top ordinate;
the intersection routine returns exactly the crossings.

M: TLC explores the algorithm of _intersection.intersection (spec/Intersect.tla: bounding
   boxes -> 4x4 solve -> closed parameter ranges) for all pairs of a 3-vertex and a 2-vertex
   lattice polyline, and calculate_design_conditions (spec/DesignCond.tla: close -> per abscissa
   every edge whose closed x-range contains it -> max) for all star-shaped lattice polygons,
   against the declarative operators of IntersectOps / DesignCondOps.  Named deviations (each
   must violate its invariant): strict upper parameter bound, np.min for np.max, the removed
   `assert len(x) <= 2`, edges that lose the crossing at an end of their x-range (the former
   line-line solve next to a vertex), the former probe line with margin 0.1*max(y) (thorough).
R: TLC emits every lattice case (IntersectGen, DesignCond/GenSpec); each is run through the
   real functions.
V: spec/Trace_C17.tla judges every execution: lattice cases against the rational expectation,
   float polygons (IFORM / ISORM / direct-sampling contours of random 2-D models, random
   star-shaped non-convex polygons) against the ordinates of all spanning edges.
"""
import math
import warnings
from fractions import Fraction

import numpy as np

from .common import Q, Qc, Machinery, import_virocon, INT_MAX

LEVEL = "model_checking"


class StandIn:
    """A contour stand-in: calculate_design_conditions only reads .coordinates"""

    def __init__(self, coords):
        self.coordinates = np.asarray(coords, dtype=float)


# dtype of the vertex coordinates (spec/IntersectOps.tla CoordTypes)
DTYPES = ["int8", "int16", "int32", "int64", "uint8", "uint16", "uint32", "uint64", "float16", "float32", "float64"]


def as_dtype(values, dtype):
    """the numbers as an array of the given dtype - every one exactly representable in it"""
    ref = np.asarray(values, dtype=float)
    arr = np.ascontiguousarray(ref).astype(dtype)
    if not np.array_equal(arr.astype(float), ref):
        raise Machinery(f"coordinates {ref.ravel()[:6]} are not representable as {dtype}")
    return arr


def stand_in(coords, dtype=None):
    obj = StandIn(coords)
    if dtype is not None:
        obj.coordinates = as_dtype(coords, dtype)
    return obj


def sign_class(v):
    return "ymax>0" if v > 0 else ("ymax=0" if v == 0 else "ymax<0")


# ----------------------------------------------------------------------------------
# intersection routine


def isect_record(inter, case):
    """case: p, q integer polylines; unit/off: the floats handed to the routine are
    lattice * unit + off (exact when unit = 1, off = 0)."""
    p = np.asarray(case["p"], dtype=float)
    q = np.asarray(case["q"], dtype=float)
    unit, ox_, oy_ = case.get("unit", 1.0), case.get("offx", 0.0), case.get("offy", 0.0)
    rec = dict(kind="isect", p=case["p"], q=case["q"], ox=[], oy=[], exc="",
               exact=bool(unit == 1.0 and ox_ == 0.0 and oy_ == 0.0 and case.get("src") != "random"))
    intype = case.get("intype", "float")

    def typed(col, which):
        """integer-valued vertex coordinates in the container / dtype the case asks for"""
        t = intype if intype != "mixed" else ("pylist" if which == "p" else "float")
        if t == "pylist":
            return [int(v) for v in col]
        if t == "tuple":
            return tuple(int(v) for v in col)
        if t in DTYPES:
            return as_dtype(col, t)
        return np.asarray(col, dtype=float)
    try:
        with warnings.catch_warnings():
            warnings.simplefilter("ignore")
            if intype != "float":
                if not rec["exact"] and case.get("src") != "random" or unit != 1.0 or ox_ != 0.0 or oy_ != 0.0:
                    raise Machinery("typed intersection inputs are integer-valued: no unit / offset")
                x, y = inter(typed(p[:, 0], "p"), typed(p[:, 1], "p"), typed(q[:, 0], "q"), typed(q[:, 1], "q"))
            else:
                x, y = inter(p[:, 0] * unit + ox_, p[:, 1] * unit + oy_, q[:, 0] * unit + ox_, q[:, 1] * unit + oy_)
        x = (np.asarray(x, dtype=float) - ox_) / unit
        y = (np.asarray(y, dtype=float) - oy_) / unit
        # a wild point (wrapped integer arithmetic) is a verdict: clamped so that TLC can subtract an expected
        # coordinate (<= 100e6) from it
        rec["ox"] = [Qc(v, 1e6, -2_000_000_000, 2_000_000_000) for v in x]
        rec["oy"] = [Qc(v, 1e6, -2_000_000_000, 2_000_000_000) for v in y]
    except Machinery:
        raise
    except Exception as e:  # noqa
        rec["exc"] = f"{type(e).__name__}: {e}"[:160]
    return rec


INTYPES = ["pylist", "int64", "int32", "float32", "tuple", "mixed"]
MAGNITUDES = [1e3, 1e-3, 1e-5, 1e-7, 1e-9]      # the same curves in a much smaller / larger unit


def random_polylines(rng, count):
    for t in range(count):
        n1 = int(rng.integers(2, 12))
        n2 = int(rng.integers(2, 12))
        style = t % 3
        if style == 0:      # arbitrary zig-zag
            p = rng.integers(0, 101, size=(n1, 2))
            q = rng.integers(0, 101, size=(n2, 2))
        elif style == 1:    # function graphs (x increasing) - many crossings
            p = np.c_[np.sort(rng.choice(101, n1, replace=False)), rng.integers(0, 101, n1)]
            q = np.c_[np.sort(rng.choice(101, n2, replace=False)), rng.integers(0, 101, n2)]
        else:               # closed polygon against a vertical / horizontal probe
            k = max(n1, 3)
            ang = np.sort(rng.uniform(0, 2 * np.pi, k))
            r = rng.uniform(10, 49, k)
            p = np.c_[np.round(50 + r * np.cos(ang)), np.round(50 + r * np.sin(ang))].astype(int)
            p = np.vstack([p, p[:1]])
            xv = int(rng.integers(0, 101))
            q = np.array([[xv, 0], [xv, 100]]) if t % 2 else np.array([[0, xv], [100, xv]])
        case = dict(kind="isect", p=[[int(a), int(b)] for a, b in p], q=[[int(a), int(b)] for a, b in q],
                    src="random")
        if t % 4 == 3:          # pure change of unit: the crossings are the scaled crossings
            case.update(unit=MAGNITUDES[(t // 4) % len(MAGNITUDES)], offx=0.0, offy=0.0)
        elif t % 2:
            case.update(unit=float(rng.choice([0.37, 0.1, 2.5])), offx=float(rng.uniform(-50, 50)),
                        offy=float(rng.uniform(-50, 50)))
        elif (t // 2) % 7:        # integer-valued vertices handed over as ints / int arrays / float32 / tuples
            case["intype"] = INTYPES[(t // 2) % 7 - 1]
        yield case


# ----------------------------------------------------------------------------------
# design conditions, lattice cases


def dcl_record(cdc, case):
    P = np.asarray(case["poly"], dtype=float)          # doubled lattice
    xs = [int(v) for v in case["xs"]]
    swap = bool(case["swap"])
    unit, offx, offy = case.get("unit", 0.5), case.get("offx", 0.0), case.get("offy", 0.0)
    coords = np.c_[P[:, 0] * unit + offx, P[:, 1] * unit + offy]
    offa = offy if swap else offx                       # offset of the abscissa column
    offo = offx if swap else offy
    steps = [float(v) * unit + offa for v in xs]
    rec = dict(kind="dcl", poly=case["poly"], xs=xs, swap=swap, rx=[], ry=[], rx2=[], ry2=[],
               xexact=True, exc="")

    def call(c, sw):
        with warnings.catch_warnings():
            warnings.simplefilter("ignore")
            return np.asarray(cdc(StandIn(c), steps=list(steps), swap_axis=sw), dtype=float)

    def back(dc):
        if dc.size == 0:
            return [], [], True
        if dc.ndim != 2 or dc.shape[1] != 2:
            raise ValueError(f"result has shape {dc.shape}")
        ex = all(float(v) in steps for v in dc[:, 0])
        rx = [int(round((float(v) - offa) / unit)) for v in dc[:, 0]]
        ry = [Qc((float(v) - offo) / unit, 1e6) for v in dc[:, 1]]
        return rx, ry, ex

    try:
        rec["rx"], rec["ry"], rec["xexact"] = back(call(coords, swap))
        if swap:
            rec["rx2"], rec["ry2"], _ = back(call(coords[:, ::-1], False))
    except Exception as e:  # noqa
        rec["exc"] = f"{type(e).__name__}: {e}"[:160]
    ycol = coords[:, 0] if swap else coords[:, 1]
    return rec, sign_class(float(ycol.max()))


# ----------------------------------------------------------------------------------
# design conditions, float polygons


def hits_at(x, xc, yc):
    """ordinates of all edges of the closed polygon (xc, yc closed) whose closed x-range contains the
    abscissa x - exact rational arithmetic on the float vertices (fractions.Fraction), rounded once
    at the end - and, separately, the ordinate intervals of the (nearly) vertical edges there: on an
    edge whose abscissae differ by less than 1e-9 of the extent the ordinate at x is not determined
    in floating point (every point of it is at x within round-off)"""
    out, steep = [], []
    w = float(np.max(xc) - np.min(xc))
    for i in np.nonzero((np.minimum(xc[:-1], xc[1:]) <= x) & (x <= np.maximum(xc[:-1], xc[1:])))[0]:
        xa, xb, ya, yb = float(xc[i]), float(xc[i + 1]), float(yc[i]), float(yc[i + 1])
        if abs(xb - xa) <= 1e-9 * w:
            steep.append([min(ya, yb), max(ya, yb)])
        else:
            fa, fb = Fraction(xa), Fraction(xb)
            out.append(float(Fraction(ya) + (Fraction(x) - fa) * (Fraction(yb) - Fraction(ya)) / (fb - fa)))
    return out, steep


def make_steps(case):
    """the steps argument with the python / numpy type the case asks for"""
    steps, t = case["steps"], case.get("steps_type", "list")
    if t == "range":
        return range(int(steps[0]), int(steps[-1]) + 1, int(steps[1] - steps[0]) if len(steps) > 1 else 1)
    if t == "intarray":
        return np.array(steps, dtype=np.int64)
    if t == "int32array":
        return np.array(steps, dtype=np.int32)
    if t == "floatarray":
        return np.array(steps, dtype=float)
    if t == "tuple":
        return tuple(steps)
    return list(steps)        # ints stay ints, floats stay floats


def dcf_record(cdc, case, obj=None):
    """obj: an existing contour object to call on (histories on one object); its coordinates are
    case['coords'] at this moment"""
    coords = np.asarray(case["coords"], dtype=float)
    swap = bool(case["swap"])
    kind = case["steps_kind"]
    steps = case["steps"]
    xi, yi = (1, 0) if swap else (0, 1)
    xc = np.append(coords[:, xi], coords[0, xi])
    yc = np.append(coords[:, yi], coords[0, yi])
    rec = dict(kind="dcf", steps=kind, swap=swap, exc="", shape2=True, xs=[], hits=[], steep=[], atv=[], rk=[], rx=[], ry=[],
               rx2=[], ry2=[], xmin=0, xmax=0, nsteps=0)
    mx = max(float(np.abs(coords).max()), max([abs(float(s)) for s in steps], default=0.0) if kind == "list" else 0.0, 1e-300)
    scale = 10.0 ** math.floor(8.9 - math.log10(mx))
    q = lambda v: Q(v, scale)
    qg = lambda v: Qc(v, scale, -2_000_000_000, 2_000_000_000)     # returned values: a wild one is a verdict

    def call(c, sw, on=None):
        target = on if on is not None else stand_in(c, case.get("dtype"))
        with warnings.catch_warnings():
            warnings.simplefilter("ignore")
            if kind == "none":
                return np.asarray(cdc(target, swap_axis=sw), dtype=float)
            if kind == "int":
                return np.asarray(cdc(target, steps=int(steps), swap_axis=sw), dtype=float)
            return np.asarray(cdc(target, steps=make_steps(case), swap_axis=sw), dtype=float)

    try:
        dc = call(coords, swap, obj)
        if dc.size and (dc.ndim != 2 or dc.shape[1] != 2):
            rec["shape2"] = False
            dc = np.zeros((0, 2))
        dc = dc.reshape(-1, 2)
        rxf = [float(v) for v in dc[:, 0]]
        rec["rx"] = [qg(v) for v in rxf]
        rec["ry"] = [qg(v) for v in dc[:, 1]]
        if kind == "list":
            xs = [float(s) for s in steps]
            rk, ptr = [], 0
            for v in rxf:                      # returned abscissae must be requested ones, in order
                while ptr < len(xs) and xs[ptr] != v:
                    ptr += 1
                if ptr >= len(xs):
                    rk.append(0)
                    break
                rk.append(ptr + 1)
                ptr += 1
        else:
            xs = rxf
            rk = list(range(1, len(xs) + 1))
            rec["nsteps"] = 10 if kind == "none" else int(steps)
        rec["xs"] = [qg(v) for v in xs]
        hs = [hits_at(v, xc, yc) for v in xs]
        rec["hits"] = [[q(h) for h in h_] for h_, _ in hs]
        rec["steep"] = [[[q(a), q(b)] for a, b in st_] for _, st_ in hs]
        vx = set(float(v) for v in xc)
        rec["atv"] = [v in vx for v in xs]
        rec["rk"] = rk
        rec["xmin"], rec["xmax"] = q(float(xc.min())), q(float(xc.max()))
        if swap:
            dc2 = call(coords[:, ::-1], False).reshape(-1, 2)
            rec["rx2"] = [qg(v) for v in dc2[:, 0]]
            rec["ry2"] = [qg(v) for v in dc2[:, 1]]
    except Machinery:
        raise
    except Exception as e:  # noqa
        rec["exc"] = f"{type(e).__name__}: {e}"[:160]
    return rec, sign_class(float(yc.max()))


def star_polygon(rng):
    n = int(rng.integers(4, 40))
    ang = np.sort(rng.uniform(0, 2 * np.pi, n))
    if np.max(np.diff(np.append(ang, ang[0] + 2 * np.pi))) >= np.pi:   # keep the centre inside
        ang = np.linspace(0, 2 * np.pi, n, endpoint=False) + rng.uniform(0, 0.1)
    r = rng.uniform(0.3, 3.0, n) * float(rng.choice([1.0, 1.0, 30.0]))
    where = int(rng.integers(0, 4))
    c = [rng.uniform(4, 12, 2), rng.uniform(-12, 12, 2), np.array([rng.uniform(-12, 12), -rng.uniform(5, 12)]),
         np.array([-rng.uniform(5, 12), rng.uniform(4, 12)])][where]
    c = c * (r.max() / 3.0 + 1.0)
    pts = np.c_[c[0] + r * np.cos(ang), c[1] + r * np.sin(ang)]
    if rng.random() < 0.5:
        pts = pts[::-1]
    k = int(rng.integers(0, n))
    return np.roll(pts, k, axis=0)


def model_contours(vc, rng, count):
    from . import models
    fams = ["weibull", "lognormal", "normal", "expweibull", "gengamma", "lognormfit"]
    out = []
    tries = 0
    while len(out) < count and tries < 5 * count:
        tries += 1
        f0 = fams[int(rng.integers(0, 5))]
        f1 = fams[int(rng.integers(0, len(fams)))]
        cond = [None, 0 if rng.random() < 0.75 else None]
        try:
            with warnings.catch_warnings():
                warnings.simplefilter("ignore")
                m = models.build_model(vc, rng, 2, cond, [f0, f1])
                alpha = float(10 ** rng.uniform(-4, -0.7))
                which = len(out) % 3
                if which == 0:
                    c = vc.IFORMContour(m, alpha, n_points=int(rng.integers(12, 120)))
                    src = "iform"
                elif which == 1:
                    c = vc.ISORMContour(m, alpha, n_points=int(rng.integers(12, 120)))
                    src = "isorm"
                else:
                    s = m.draw_sample(int(rng.integers(500, 4000)), random_state=int(rng.integers(0, 2**31)))
                    c = vc.DirectSamplingContour(m, max(alpha, 0.005), sample=s,
                                                 deg_step=int(rng.choice([6, 24, 60, 1, 5, 10])))
                    src = "ds"
            co = np.asarray(c.coordinates, dtype=float)
            if co.ndim == 2 and co.shape[1] == 2 and np.isfinite(co).all() and np.ptp(co[:, 0]) > 0 and np.ptp(co[:, 1]) > 0 \
                    and np.abs(co).max() < 1e6:
                out.append((src, co))
        except Exception:  # noqa  (building a contour is not what is judged here)
            continue
    return out


def steps_variants(rng, coords, swap):
    """(kind, steps) variants for one polygon"""
    xcol = coords[:, 1] if swap else coords[:, 0]
    lo, hi = float(xcol.min()), float(xcol.max())
    w = hi - lo
    yield "none", None
    yield "int", int(rng.choice([1, 2, 3, 5, 10, 25]))
    inside = rng.uniform(lo + 0.01 * w, hi - 0.01 * w, int(rng.integers(1, 9)))
    yield "list", [float(v) for v in (np.sort(inside) if rng.random() < 0.5 else inside)]
    mixed = np.concatenate([rng.uniform(lo - 0.5 * w, hi + 0.5 * w, 6), [lo - 0.1 * w, hi + 0.1 * w]])
    rng.shuffle(mixed)
    yield "list", [float(v) for v in mixed]
    vert = rng.choice(xcol, size=min(len(xcol), 5), replace=False)        # exactly at vertex abscissae
    yield "list", [float(v) for v in vert] + [float(lo), float(hi)]
    # within 1..3 ulp of vertex abscissae (the crossing with the adjacent edge lies within round-off of
    # the vertex), and the polygon's own x-coordinates as steps
    pick = rng.choice(xcol, size=min(len(xcol), 10), replace=False)
    near = []
    for v in pick:
        for direction in (-np.inf, np.inf):
            u = float(v)
            for _ in range(int(rng.integers(1, 4))):
                u = float(np.nextafter(u, direction))
            near.append(u)
    yield "list", near, "ulp"
    yield "list", [float(v) for v in xcol], "own"
    # integer-typed explicit steps: list of ints, range, int64 / int32 array, mixed int / float, tuple
    ints = list(range(int(math.ceil(lo)) - 1, int(math.floor(hi)) + 2))
    if len(ints) > 60:          # a polygon in a small unit spans many integers: keep an equally spaced subset
        ints = ints[::len(ints) // 40]
    if len(ints) >= 3:
        k = int(rng.integers(0, 5))
        if k == 0:
            sel = [int(v) for v in rng.permutation(ints)[: max(2, len(ints) // 2)]]
            yield "list", sel, "intlist"
        elif k == 1:
            stride = int(rng.integers(1, 3))
            yield "list", ints[::stride], "range"
        elif k == 2:
            yield "list", ints, "intarray"
        elif k == 3:
            yield "list", ints[::-1], "int32array"
        else:
            mix = [v if i % 2 else float(v) + 0.5 for i, v in enumerate(ints)]
            yield "list", mix, "mixed"
        yield "list", [float(v) for v in ints], ("floatarray" if rng.random() < 0.5 else "tuple")


def dcf_cases(ctx, vc, rng, lattice_polys=()):
    nstar = ctx.pick(150, 1000)
    ncont = ctx.pick(45, 300)
    polys = [("star", star_polygon(rng)) for _ in range(nstar)] + model_contours(vc, rng, ncont)
    # emitted lattice polygons as float polygons (halved / scaled and shifted): they get the same step
    # kinds, in particular "within a few ulp of a vertex abscissa" and "the polygon's own x-coordinates"
    for k, poly in enumerate(lattice_polys):
        unit, ox, oy = [(0.5, 0.0, 0.0), (0.1, 0.3, 1.7), (0.7, -2.0, -1.0), (1.0 / 3.0, 5.0, 0.25)][k % 4]
        P = np.asarray(poly, dtype=float)
        polys.append(("lattice", np.c_[P[:, 0] * unit + ox, P[:, 1] * unit + oy]))
    # every 8th polygon also in a much smaller / larger unit (steps are drawn for the scaled polygon)
    polys += [(f"{src}*{MAGNITUDES[k % len(MAGNITUDES)]:g}", co * MAGNITUDES[k % len(MAGNITUDES)])
              for k, (src, co) in enumerate(polys[::8])]
    for idx, (src, co) in enumerate(polys):
        for swap in (False, True):
            for var in steps_variants(rng, co, swap):
                kind, steps = var[0], var[1]
                yield dict(kind="dcf", src=src, idx=idx, coords=[[float(a), float(b)] for a, b in co],
                           swap=swap, steps_kind=kind, steps=steps, steps_type=var[2] if len(var) > 2 else "list")


# per dtype (unit, offset) of a lattice-valued polygon (doubled lattice 0..6): the signed integer types get an extent
# beyond half their range (max - min formed in the type wraps around), the unsigned ones values up to their top
# (a negated / lowered value wraps), the float types quarter units
DTYPE_FRAME = {"int8": (40.0, -120.0), "int16": (10000.0, -30000.0), "int32": (6e8, -1.8e9), "int64": (3e18, -9e18),
               "uint8": (40.0, 0.0), "uint16": (10000.0, 0.0), "uint32": (7e8, 0.0), "uint64": (3e18, 0.0),
               "float16": (0.25, -0.75), "float32": (0.25, -0.75), "float64": (0.25, -0.75)}
DIAMOND = [[0, 3], [3, 0], [6, 3], [3, 6]]      # the diamond of the bug report: (-120, 0), (0, -120), (120, 0), (0, 120) as int8


def dcf_dtype_cases(ctx, lattice_polys, idx0):
    """the dtype of the coordinates as an input class of calculate_design_conditions: for every dtype the diamond and
    2 (quick) / 6 (thorough) emitted lattice polygons (rotating with the seed), in the frame of the dtype, x steps
    None / 5 / 2 / the polygon's own abscissae and the midpoints between them x swap_axis"""
    n = ctx.pick(2, 6)
    for k, dt in enumerate(DTYPES):
        unit, off = DTYPE_FRAME[dt]
        pick = [DIAMOND] + [lattice_polys[(ctx.seed * 7 + k * n + j * 5) % len(lattice_polys)] for j in range(n)]
        for j, poly in enumerate(pick):
            co = np.asarray(poly, dtype=float) * unit + off
            for swap in (False, True):
                xcol = sorted(set(float(v) for v in (co[:, 1] if swap else co[:, 0])))
                own = xcol + [0.5 * (a + b) for a, b in zip(xcol[:-1], xcol[1:])]
                for kind, steps in (("none", None), ("int", 5), ("int", 2), ("list", own)):
                    yield dict(kind="dcf", src=f"lattice:{dt}", idx=idx0 + k * (n + 1) + j, dtype=dt,
                               coords=[[float(a), float(b)] for a, b in co], swap=swap, steps_kind=kind, steps=steps,
                               steps_type="list")


def hist_records(cdc, case):
    """One contour object through a history of calls and coordinate changes; every call gives a
    'dcf' record judged against the coordinates the object has AT THAT MOMENT."""
    rng = np.random.default_rng([case["seed"], case["idx"], 23])
    obj = StandIn(np.array(case["coords"], dtype=float))
    out = []
    for pos, op in enumerate(case["ops"]):
        if op == "assign":
            cur = np.asarray(obj.coordinates, dtype=float)
            how = int(rng.integers(0, 3))
            if how == 0:       # unit conversion / shift: a new array
                obj.coordinates = cur * float(rng.choice([0.5, 1.94384, 3.6])) + rng.uniform(-1, 4, size=2)
            elif how == 1:     # another polygon altogether
                obj.coordinates = star_polygon(rng)
            else:              # re-sorted: reversed orientation, other start vertex, stretched
                obj.coordinates = np.roll(cur[::-1], int(rng.integers(0, len(cur))), axis=0) * np.array([1.0, 1.7])
        elif op == "inplace":
            how = int(rng.integers(0, 3))
            if how == 0:
                obj.coordinates[:, 1] += float(rng.uniform(1, 5))
            elif how == 1:
                obj.coordinates *= float(rng.choice([0.5, 2.0, 1.3]))
            else:
                obj.coordinates[:, 0] = obj.coordinates[:, 0] * 1.5 - 2.0
        else:
            swap = op == "call_swap"
            cur = np.array(obj.coordinates, dtype=float)
            xcol = cur[:, 1] if swap else cur[:, 0]
            lo, hi = float(xcol.min()), float(xcol.max())
            if (pos + case["idx"]) % 2:
                kind, steps = "none", None
            else:
                kind, steps = "list", [float(v) for v in np.sort(rng.uniform(lo, hi, 5))] + [hi + 1.0]
            sub = dict(kind="dcf", src="history", idx=case["idx"], coords=[[float(a), float(b)] for a, b in cur],
                       swap=swap, steps_kind=kind, steps=steps, steps_type="list")
            rec, ycls = dcf_record(cdc, sub, obj=obj)
            if not np.array_equal(np.asarray(obj.coordinates, dtype=float), cur):
                rec["exc"] = rec["exc"] or "CoordinatesModifiedByCall"
            out.append((rec, ycls, f"call#{pos + 1}"))
    return out


# ----------------------------------------------------------------------------------


def key_of(case, ycls=""):
    k = case["kind"]
    if k == "isect":
        if case.get("src") == "random":
            return f"intersection random p={case['p']} q={case['q']} unit={case.get('unit', 1.0)} type={case.get('intype', 'float')}"
        return f"intersection lattice p={case['p']} q={case['q']} unit={case.get('unit', 1.0)} type={case.get('intype', 'float')}"
    if k == "cover":
        return "coverage of the coordinate dtypes"
    if k == "dcl":
        order = "asc" if case["xs"][0] < case["xs"][-1] else "desc"
        return (f"design lattice poly={case['poly']} xs={order} swap={case['swap']} "
                f"unit={case.get('unit', 0.5)} off=({case.get('offx', 0.0)},{case.get('offy', 0.0)}) {ycls}")
    if k == "hist":
        return f"design history ops={','.join(case['ops'])} idx={case['idx']} seed={case['seed']} {ycls}"
    st = case["steps_kind"] if case["steps_kind"] != "int" else f"int{case['steps']}"
    if case["steps_kind"] == "list":
        st = f"{case.get('steps_type', 'list')}{len(case['steps'])}"
    return f"design {case['src']}#{case['idx']} n={len(case['coords'])} steps={st} swap={case['swap']} {ycls}"


def execute(vc, case):
    from virocon._intersection import intersection
    from virocon.utils import calculate_design_conditions
    if case["kind"] == "isect":
        return [(isect_record(intersection, case), "", "")]
    if case["kind"] == "dcl":
        return [dcl_record(calculate_design_conditions, case) + ("",)]
    if case["kind"] == "cover":
        return [(dict(kind="cover", isect=case["isect"], dcf=case["dcf"]), "", "")]
    if case["kind"] == "hist":
        return hist_records(calculate_design_conditions, case)
    return [dcf_record(calculate_design_conditions, case) + ("",)]


def selftest_records():
    sq = [[0, 0], [4, 0], [4, 4], [0, 4]]
    isect = dict(kind="isect", p=[[0, 0], [2, 2], [0, 2]], q=[[0, 1], [2, 1]], ox=[1000000],
                 oy=[1000000], exact=True, exc="")
    touch = dict(kind="isect", p=[[0, 0], [2, 2], [0, 2]], q=[[0, 2], [2, 0]], ox=[1000000, 0], oy=[1000000, 2000000],
                 exact=True, exc="")
    dcl = dict(kind="dcl", poly=sq, xs=[-1, 0, 1, 4, 5], swap=False, rx=[0, 1, 4], ry=[4000000] * 3,
               rx2=[], ry2=[], xexact=True, exc="")
    dcf = dict(kind="dcf", steps="list", swap=False, exc="", shape2=True, xs=[-5, 10, 20], hits=[[], [0, 40], [0, 40, 40]],
               steep=[[], [], []], atv=[False, False, True], rk=[2, 3], rx=[10, 20], ry=[40, 40], rx2=[], ry2=[], xmin=0, xmax=40000, nsteps=0)
    dcn = dict(dcf, steps="int", nsteps=3, xs=[4, 20000, 39996], hits=[[0, 9]] * 3, steep=[[]] * 3, atv=[False] * 3, rk=[1, 2, 3],
               rx=[4, 20000, 39996], ry=[9, 9, 9])
    out = []
    k = 0

    def put(src, expect, want=None, **chg):
        nonlocal k
        k += 1
        r = dict(src)
        r.update(chg)
        r["id"] = 2_000_000_000 + k
        out.append((r, want if want is not None else ([] if expect is None or expect == [] else [expect])))

    put(isect, None)
    put(isect, "ExactlyTheCrossings", ox=[], oy=[])
    put(isect, "ExactlyTheCrossings", ox=[1000000, 1000000], oy=[1000000, 1000000])
    put(isect, "ExactlyTheCrossings", oy=[1000010])
    put(isect, "NoException", exc="X")
    put(touch, None)
    put(touch, "ClosedRange", ox=[1000000], oy=[1000000])
    put(dcl, None)
    put(dcl, "Design", ry=[4000000, 0, 4000000])
    put(dcl, "Design", rx=[0, 4], ry=[4000000] * 2)
    put(dcl, "DesignAtVertex", ry=[0, 4000000, 4000000])
    put(dcl, "DesignAtVertex", rx=[0, 1], ry=[4000000] * 2)
    put(dcl, "OnContour", ry=[4000000, 2000000, 4000000], want=["OnContour", "Design"])
    put(dcl, "Omission", rx=[0, 1, 4, 5], ry=[4000000] * 4, want=["Omission", "OnContour"])
    put(dcl, "RequestedAbscissa", rx=[4, 1, 0])
    put(dcl, "RequestedAbscissa", xexact=False)
    put(dcl, "SwapIsExchange", swap=True, rx2=[0, 1, 4], ry2=[4000000, 4000000, 3999990])
    put(dcl, "NoException", exc="AssertionError: ")
    put(dcf, None)
    put(dcf, "TopOrdinate", ry=[0, 40])
    put(dcf, "TopOrdinate", rk=[3], rx=[20], ry=[40])
    put(dcf, "TopAtVertex", ry=[40, 0])
    put(dcf, "TopAtVertex", rk=[2], rx=[10], ry=[40])
    put(dcf, "OnContour", ry=[20, 40], want=["OnContour", "TopOrdinate"])
    put(dcf, "TopOrdinate", ry=[20, 40], steep=[[], [[0, 30]], []])
    put(dcf, [], ry=[45, 40], steep=[[], [[0, 50]], []])
    put(dcf, "TopOrdinate", ry=[55, 40], steep=[[], [[0, 50]], []], want=["OnContour", "TopOrdinate"])
    put(dcf, [], hits=[[], [], [0, 40, 40]], ry=[5, 40], steep=[[], [[0, 50]], []])
    put(dcf, "Omission", rk=[1, 2, 3], rx=[-5, 10, 20], ry=[0, 40, 40], want=["Omission", "OnContour"])
    put(dcf, "RequestedAbscissa", rk=[3, 2])
    put(dcf, "RequestedAbscissa", rx=[11, 20])
    put(dcf, "SwapIsExchange", swap=True, rx2=[10, 20], ry2=[40, 50])
    put(dcn, None)
    put(dcn, "DefaultSpan", rx=[4, 20010, 39996], xs=[4, 20010, 39996])
    put(dcn, "DefaultSpan", nsteps=4)
    return out


def judge(ctx, vc, cases, label, selftest=False, chunk=50000):
    recs, ycl, owner = [], [], []
    for i, c in enumerate(cases):
        for r, y, sub in execute(vc, c):
            r["id"] = len(recs) + 1
            recs.append(r)
            ycl.append((y + " " + sub).strip())
            owner.append(i)
    st = selftest_records() if selftest else []
    failing = ctx.validate("Trace_C17", "Trace_C17.cfg", recs + [r for r, _ in st], chunk=chunk, xss="256m")
    for r, expect in st:
        got = failing.pop(r["id"], [])
        if sorted(got) != sorted(expect):
            raise Machinery(f"selftest: synthetic record {r} expected rejection by {expect}, got {got}")
    for i, r in enumerate(recs):
        c = cases[owner[i]]
        if c["kind"] == "cover":
            if r["id"] in failing:
                raise Machinery(f"coordinate dtypes not covered: {c}")
            continue
        if c["kind"] == "isect":
            nontrivial = len(r["ox"]) > 0
        elif c["kind"] == "dcl":
            nontrivial = len(r["rx"]) > 0
        else:
            nontrivial = (len(r["rx"]) > 0 and any(len(h) > 2 for h in r["hits"])) or r["steps"] != "list"
        ctx.case(key_of(c, ycl[i]), nontrivial)
        for clause in failing.get(r["id"], []):
            detail = {k: (v if not isinstance(v, list) or len(v) <= 12 else v[:12] + ["..."]) for k, v in r.items()
                      if k not in ("poly", "p", "q")}
            ctx.violation(clause, key_of(c, ycl[i]), f"record={detail}", replay=c)
    ctx.log(f"{label}: {len(recs)} executions judged, {sum(1 for r in recs if r['id'] in failing)} rejected")
    return recs


def run(ctx):
    vc = import_virocon()
    ctx.rule = ("exhaustive: every pair of a 3-vertex and a 2-vertex polyline on a 3x3 (quick) / 4x4 (thorough, "
                "general position) lattice through intersection(); every star-shaped lattice polygon with <= 4 "
                "(quick) / 5 (thorough) vertices on the 4x4 lattice (all rotations) x abscissae at every half unit "
                "from one below to one above the extent (ascending; descending and swap_axis for all (thorough) / every "
                "8th resp. 2nd polygon (quick)) through "
                "calculate_design_conditions, plus scaled / shifted copies; every 6th (quick) / 5th (thorough) lattice pair "
                "and 3/7 of the unscaled random pairs also with the vertex sequences typed as Python int lists, int64 / "
                "int32 / float32 arrays, tuples, one curve int and one float; every 9th / 7th lattice pair, a quarter of "
                "the random pairs and every 8th float polygon also in units of 1e3, 1e-3, 1e-5, 1e-7, 1e-9; the dtype of the coordinates "
                "(int8 .. int64, uint8 .. uint64, float16 / float32 / float64; TLC asserts that each occurred): every 120th / 60th lattice pair and the plain random pairs once more as "
                "typed arrays, and per dtype the diamond of the bug report + 2 / 6 emitted lattice polygons in a frame that "
                "exhausts the type (int8: -120..120, uint8: 0..240, ...) x steps None / 5 / 2 / own abscissae and midpoints x swap_axis; seeded random: integer polylines on "
                "0..100, star-shaped non-convex float polygons and IFORM / ISORM / direct-sampling contours of "
                "random 2-D models x steps None / int / lists inside, outside, at vertex abscissae, integer-typed "
                "(int list, range, int64 / int32 array, mixed, tuple), within 1-3 ulp of vertex abscissae, the polygon's "
                "own x-coordinates x swap_axis (also for every 16th (quick) / 12th (thorough) emitted lattice "
                "polygon as a float polygon); every history of 4 (quick) / 5 "
                "(thorough) operations call / call swapped / assign new coordinates / modify in place on ONE "
                "contour object, emitted by TLC (DesignCondHist). "
                "distinct = distinct call; non-trivial = at least one returned point / row")
    ctx.trusted = ["TLC 1.8 evaluating spec/IntersectOps.tla, spec/DesignCondOps.tla, spec/Trace_C17.tla",
                   "harness/c17.py hits_at(): exact rational interpolation (fractions.Fraction) on the float vertices of "
                   "every polygon edge whose closed x-range contains the abscissa",
                   "fixed-point projection Q/Qc; mapping of scaled lattice results back to lattice units"]
    ctx.assumptions = ["contour objects are stand-ins with a .coordinates attribute (the only thing the function reads)",
                       "clause ClosedRange (touching end points are reported) is judged on exact lattice inputs only; "
                       "the property itself speaks about general position",
                       "polygons whose two segments lie on one line with the probe (vertical edges at a requested "
                       "abscissa) are judged through the adjacent edges' end points"]
    q = ctx.quick
    # M
    ctx.model_check("Intersect", ctx.pick("MC_Intersect_quick.cfg", "MC_Intersect_thorough.cfg"),
                    must_cover=("Boxes", "Solve", "Emit"), timeout=3000)
    ctx.model_check("Intersect", "MC_Intersect_strict.cfg", expect_violation="TouchingKept")
    ctx.model_check("DesignCond", ctx.pick("MC_DesignCond_quick.cfg", "MC_DesignCond_thorough.cfg"),
                    must_cover=("Close", "Probe", "Finish"), timeout=3000)
    ctx.model_check("DesignCond", "MC_DesignCond_min.cfg", expect_violation="DesignHolds")
    ctx.model_check("DesignCond", "MC_DesignCond_assert.cfg", expect_violation="NoError")
    ctx.model_check("DesignCond", "MC_DesignCond_openends.cfg", expect_violation="DesignHolds")
    if not q:
        ctx.model_check("DesignCond", "MC_DesignCond_neg.cfg", expect_violation="DesignHolds")
        ctx.model_check("DesignCond", "MC_DesignCond_negfix.cfg", must_cover=("Probe",))
    rng = np.random.default_rng(ctx.seed + 17)
    # R + V: intersection
    gen = ctx.generate("IntersectGen", ctx.pick("Gen_Intersect_quick.cfg", "Gen_Intersect_thorough.cfg"), timeout=3000)
    cases = [dict(kind="isect", p=g["p"], q=g["q"]) for g in gen]
    sc = [dict(c, unit=0.3, offx=-1.7, offy=0.9) for c in cases[::ctx.pick(15, 11)]]
    # the same lattice pairs with the vertex sequences typed as Python ints, int64 / int32 / float32 arrays,
    # tuples, or one curve int and one float (the crossings are in general not integers)
    sc += [dict(c, intype=INTYPES[k % len(INTYPES)]) for k, c in enumerate(cases[3::ctx.pick(6, 5)])]
    # the same lattice pairs in units of 1e3 ... 1e-9 (scale invariance of the crossings)
    sc += [dict(c, unit=MAGNITUDES[k % len(MAGNITUDES)], offx=0.0, offy=0.0)
           for k, c in enumerate(cases[5::ctx.pick(9, 7)])]
    rp = list(random_polylines(rng, ctx.pick(1500, 20000)))
    # the dtype of the coordinates (IntersectOps!CoordTypes): lattice pairs and the plain random pairs once more,
    # typed as int8 .. uint64 / float16 .. float64 arrays (all coordinates 0..100: representable in every type)
    sc += [dict(c, intype=DTYPES[k % len(DTYPES)]) for k, c in enumerate(cases[4::ctx.pick(120, 60)])]
    rp += [dict(c, intype=DTYPES[(k + ctx.seed) % len(DTYPES)])
           for k, c in enumerate([c for c in rp if "unit" not in c and "intype" not in c])]
    recs = judge(ctx, vc, cases + sc + rp, "lattice polyline pairs + random integer polylines", selftest=True)
    ctx.sample({"emitted": gen[len(gen) // 3], "record": recs[len(gen) // 3]})
    ctx.notes["lattice_polyline_pairs"] = len(gen)
    ctx.notes["random_integer_polyline_pairs"] = len(rp)
    # R + V: design conditions on lattice polygons
    gen2 = ctx.generate("DesignCond", ctx.pick("Gen_DesignCond_quick.cfg", "Gen_DesignCond_thorough.cfg"), timeout=3000)
    gen2.sort(key=lambda g: (g["poly"], g["swap"], g["xs"][0]))
    dcl = [dict(kind="dcl", poly=g["poly"], xs=g["xs"], swap=g["swap"]) for g in gen2]
    if q:   # quick: every polygon with ascending abscissae; swap_axis for every 2nd, the descending list for every 8th
        dcl = [c for i, c in enumerate(dcl)
               if (c["xs"][0] < c["xs"][-1] and (not c["swap"] or (i // 4) % 2 == 0))
               or (c["xs"][0] > c["xs"][-1] and (i // 4) % 8 == 0)]
    var = [dict(c, unit=0.1, offx=0.3, offy=1.7) for c in dcl[1::ctx.pick(9, 13)]]
    var += [dict(c, unit=0.25, offx=-2.0, offy=-1.0) for c in dcl[2::ctx.pick(9, 13)]]       # straddles the axes
    var += [dict(c, unit=0.5, offx=-7.0, offy=-9.0) for c in dcl[3::ctx.pick(29, 43)]]       # below / left of the axes
    recs2 = judge(ctx, vc, dcl + var, "lattice star polygons")
    ctx.sample({"emitted": gen2[len(gen2) // 2], "record": recs2[len(gen2) // 2]})
    ctx.notes["lattice_polygon_cases"] = len(gen2)
    # V: float polygons
    seen, lat = set(), []
    for g in gen2:
        t = tuple(map(tuple, g["poly"]))
        if t not in seen:
            seen.add(t)
            lat.append(g["poly"])
    fc = list(dcf_cases(ctx, vc, rng, lat[::ctx.pick(16, 12)]))
    tc = list(dcf_dtype_cases(ctx, lat, 1 + max(c["idx"] for c in fc)))
    ctx.notes["typed_polygon_calls"] = len(tc)
    fc += tc
    fc.append(dict(kind="cover", isect=sorted({c["intype"] for c in sc + rp if c.get("intype") in DTYPES}),
                   dcf=sorted({c["dtype"] for c in tc})))
    # R + V: histories on one contour object (call / assign / modify in place / call again)
    ctx.model_check("DesignCondHist", "MC_DesignCondHist_keep.cfg", expect_violation="UsesCurrent")
    gen3 = ctx.generate("DesignCondHist", ctx.pick("Gen_DesignCondHist_quick.cfg", "Gen_DesignCondHist_thorough.cfg"))
    gen3.sort(key=lambda g: g["ops"])
    hc = [dict(kind="hist", ops=g["ops"], idx=i, seed=ctx.seed,
               coords=[[float(a), float(b)] for a, b in star_polygon(rng)]) for i, g in enumerate(gen3)]
    recs3 = judge(ctx, vc, fc + hc, "float polygons (star-shaped, IFORM/ISORM/DS contours) + object histories",
                  chunk=4000)
    ctx.sample({"case": {k: v for k, v in fc[7].items() if k != "coords"}, "record": recs3[7]})
    ctx.sample({"emitted_history": gen3[len(gen3) // 2]})
    ctx.notes["float_polygon_calls"] = len(fc) - 1
    ctx.notes["object_histories"] = len(gen3)
    ctx.exhaustive = True


def replay(ctx, case):
    vc = import_virocon()
    judge(ctx, vc, [case["case"]], "replay")
