"""C12 - maximum-likelihood fits do not lose likelihood and are scale-equivariant.

M: TLC explores the fit life cycle [fit of ANOTHER instance with a fixed parameter ->] start -> fit(d) -> fit(c*d from defaults) -> re-fit(d from the
   fitted values) of spec/FitLaws.tla over (family, regular parameter class, n, scale factor,
   start kind, replicate) with an idealised estimator; four mutation configs (estimator returns the
   start values / swaps the shapes / inverts the reciprocal scale / treats a log-scale as a scale)
   must violate AtLeastGenerating resp. ScaleEquivariant; a fifth (scipy fit keywords shared through a
   class-level dict that _fit_mle mutates) must violate HistoryIndependent.
R: the same module emits every case (Gen_FitLaws_*.cfg) including the user start vector and the
   generating vector mapped by the spec's ScaleMap.
V: the driver draws own-family data (numpy only), performs the three fits on the real classes,
   measures sum(log dist.pdf(data)) with the object's own pdf and the parameters, and
   spec/Trace_C12.tla judges NoLikelihoodLoss.{fit,scaled,refit}, AtLeastGenerating.{fit,scaled,refit}
   (MomentsMatch for the moment estimator LogNormalNormFit), Admissible, ScaleEquivariant,
   StartAsSpecified on every record.  History: every worker process first forks one fresh process per first
   fit (clean, and after a fit of another instance of the family with parameter kfix fixed), then runs its
   cases three times - in the given order, in another seeded order (CaseOrderIndependent: all fitted
   parameters bit-identical to each other and to the fresh process) and each first fit again after the
   fixed-parameter instance (FixedFitDoesNotLeak: bit-identical, in the worker and in the fresh process).
   Plus the explicit low-end cases of spec/FitLawsCases.tla (default start) and the small-magnitude 3-parameter
   Weibull cases of spec/FitLawsSmall.tla: alpha 0.05..0.2, location > 0, fitted from the generating and from a near
   user start, x and 20 x (start mapped by ScaleMap), judged by the same clauses.
"""
import json
import math
import multiprocessing
import os
import select
import struct
import warnings
import zlib

import numpy as np

from .common import Machinery, import_virocon

LEVEL = "exploration"
NEG = -2_000_000_000
PCLAMP = 200_000_000


# ----------------------------------------------------------------------------------
# families: class objects and independent samplers (numpy only, no virocon code)

def _families(vc):
    from virocon.distributions import LogNormalNormFitDistribution, ScipyDistribution

    class ScipyGumbel(ScipyDistribution):
        scipy_dist_name = "gumbel_r"

    class ScipyGamma(ScipyDistribution):
        scipy_dist_name = "gamma"

    def gamma_floc(**kw):
        kw.pop("loc", None)
        return ScipyGamma(f_loc=0, **kw)

    return {
        "Weibull": (vc.WeibullDistribution, ["alpha", "beta", "gamma"]),
        "LogNormal": (vc.LogNormalDistribution, ["mu", "sigma"]),
        "Normal": (vc.NormalDistribution, ["mu", "sigma"]),
        "LogNormalNormFit": (LogNormalNormFitDistribution, ["mu_norm", "sigma_norm"]),
        "ExponentiatedWeibull": (vc.ExponentiatedWeibullDistribution, ["alpha", "beta", "delta"]),
        "GeneralizedGamma": (vc.GeneralizedGammaDistribution, ["m", "c", "lambda_"]),
        "VonMises": (vc.VonMisesDistribution, ["kappa", "mu"]),
        "ScipyGumbel": (ScipyGumbel, ["loc", "scale"]),
        "ScipyGammaFloc": (gamma_floc, ["a", "loc", "scale"]),
    }


def draw(fam, th, n, rng):
    """own-family sample, written out with numpy primitives"""
    if fam == "Weibull":
        a, b, g = th
        return g + a * rng.weibull(b, n)
    if fam == "LogNormal":
        m, s = th
        return np.exp(m + s * rng.standard_normal(n))
    if fam == "Normal":
        m, s = th
        return m + s * rng.standard_normal(n)
    if fam == "LogNormalNormFit":
        m, s = th  # mean and standard deviation of the log-normal variable itself
        s2 = math.log(1 + s * s / (m * m))
        return np.exp(math.log(m) - s2 / 2 + math.sqrt(s2) * rng.standard_normal(n))
    if fam == "ExponentiatedWeibull":
        a, b, d = th
        u = rng.random(n)
        return a * (-np.log1p(-u ** (1 / d))) ** (1 / b)
    if fam == "GeneralizedGamma":
        m, c, lam = th
        return rng.gamma(m, size=n) ** (1 / c) / lam
    if fam == "VonMises":
        k, mu = th
        return rng.vonmises(mu, k, n)
    if fam == "ScipyGumbel":
        loc, sc = th
        return rng.gumbel(loc, sc, n)
    if fam == "ScipyGammaFloc":
        a, _, sc = th
        return sc * rng.gamma(a, size=n)
    raise Machinery(f"unknown family {fam}")


def qll(v):
    if v != v or v == float("-inf"):
        return NEG
    if v == float("inf"):
        return -NEG
    return max(NEG, min(-NEG, int(round(v * 1000))))


def qpar(vals):
    out, fin = [], True
    for v in vals:
        v = float(v)
        if not math.isfinite(v):
            fin = False
            out.append(0)
        else:
            out.append(max(-PCLAMP, min(PCLAMP, int(round(v * 1e6)))))
    return out, fin


def loglik(dist, x):
    try:
        with np.errstate(all="ignore"):
            return float(np.sum(np.log(dist.pdf(x))))
    except ZeroDivisionError:
        # LogNormalNormFitDistribution() with the default mu_norm=0 cannot evaluate its pdf
        return float("-inf")


def data_seed(seed, c):
    return zlib.crc32(f"{seed}|{c['fam']}|{c['ci']}|{c['n']}|{c['rep']}".encode())


_VC = None


def _vc():
    global _VC
    if _VC is None:
        _VC = import_virocon()
    return _VC


def run_case(arg):
    """one fit life cycle on the real classes; returns the projected record"""
    rid, c, seed = arg
    vc = _vc()
    fams = _families(vc)
    fam = c["fam"]
    mk, names = fams[fam]
    fl = lambda q: [v / 1e6 for v in q]
    theta, thetac, start = fl(c["theta"]), fl(c["thetac"]), fl(c["start"])
    cf = c["num"] / c["den"]
    rng = np.random.default_rng(data_seed(seed, c))
    x = draw(fam, theta, c["n"], rng)
    x0 = x.copy()
    rec = dict(id=rid, fam=fam, num=c["num"], den=c["den"], kind=c["kind"], n=c["n"], label=c["label"],
               start=c["start"], exc="")
    med = float(np.median(np.abs(x)))
    if fam != "VonMises" and not (0.5 * c["scale"] <= med * 1000 <= 2.0 * c["scale"]):
        raise Machinery(f"nominal data scale of {fam} class {c['ci']} is {c['scale']} milli but the sample median is {med}")
    with warnings.catch_warnings():
        warnings.simplefilter("ignore")
        try:
            obj = mk() if c["kind"] == "default" else mk(**dict(zip(names, start)))
            p0, _ = qpar(obj.parameters[k] for k in names)
            ll0 = loglik(obj, x)
            obj.fit(x)
            p1f = [float(obj.parameters[k]) for k in names]
            p1, fin1 = qpar(p1f)
            raw = {"p1": list(p1f)}
            ll1 = loglik(obj, x)
            llg = loglik(mk(**dict(zip(names, theta))), x)
            if fam != "VonMises":
                xc = cf * x
                o2 = mk()
                ll0c = loglik(o2, xc)
                o2.fit(xc)
                raw["p2"] = [float(o2.parameters[k]) for k in names]
                p2, fin2 = qpar(raw["p2"])
                ll2 = loglik(o2, xc)
                llgc = loglik(mk(**dict(zip(names, thetac))), xc)
            else:
                xc = x
                p2, fin2, ll0c, ll2, llgc = p1, fin1, ll0, ll1, llg
            o3 = mk(**dict(zip(names, p1f))) if fin1 else mk()
            o3.fit(x)
            raw["p3"] = [float(o3.parameters[k]) for k in names]
            p3, fin3 = qpar(raw["p3"])
            ll3 = loglik(o3, x)
        except Exception as e:  # noqa
            rec.update(exc=f"{type(e).__name__}: {e}"[:200], fin1=True, fin2=True, fin3=True)
            return rec
    if not np.array_equal(x, x0):
        rec["exc"] = "InputMutated"

    def moments(d):
        m = math.fsum(d.tolist()) / len(d)
        s = math.sqrt(math.fsum(((d - m) ** 2).tolist()) / (len(d) - 1))
        return qpar([m, s])[0]

    mean1, std1 = moments(x)
    mean2, std2 = moments(xc)
    rec.update(p0=p0, p1=p1, p2=p2, p3=p3, fin1=fin1, fin2=fin2, fin3=fin3,
               ll0=qll(ll0), ll1=qll(ll1), llg=qll(llg), ll0c=qll(ll0c), ll2=qll(ll2), llgc=qll(llgc),
               ll3=qll(ll3), mean1=mean1, std1=std1, mean2=mean2, std2=std2,
               bitsA=bits(raw["p1"] + raw.get("p2", []) + raw["p3"]), bits1A=bits(raw["p1"]))
    return rec


def bits(vals):
    """exact bit patterns of doubles as 22-bit limbs (TLC integers are 32 bit)"""
    out = []
    for v in vals:
        b = struct.unpack(">Q", struct.pack(">d", float(v)))[0]
        out += [b >> 44, (b >> 22) & 0x3FFFFF, b & 0x3FFFFF]
    return out


def run_fresh(func, args_list, procs):
    """func(arg) for every arg, each call as the only work of a freshly forked child of THIS process (so the
    child's module state is the state of this process at the time of the call); returns the JSON-able results"""
    results = [None] * len(args_list)
    running = {}      # fd -> (index, pid, buffer)
    nxt = 0
    while nxt < len(args_list) or running:
        while nxt < len(args_list) and len(running) < procs:
            rfd, wfd = os.pipe()
            pid = os.fork()
            if pid == 0:
                os.close(rfd)
                try:
                    out = json.dumps(func(args_list[nxt]))
                except BaseException as e:  # noqa
                    out = json.dumps({"__exc__": f"{type(e).__name__}: {e}"[:200]})
                with os.fdopen(wfd, "w") as fh:
                    fh.write(out)
                os._exit(0)
            os.close(wfd)
            running[rfd] = (nxt, pid, [])
            nxt += 1
        ready, _, _ = select.select(list(running), [], [])
        for fd in ready:
            chunk = os.read(fd, 1 << 16)
            idx, pid, buf = running[fd]
            if chunk:
                buf.append(chunk)
            else:
                os.close(fd)
                os.waitpid(pid, 0)
                del running[fd]
                results[idx] = json.loads(b"".join(buf).decode() or "null")
    return results


def fresh_first_fit(arg):
    """the first fit of a case as the only work of a fresh process: clean, or after the fixed-parameter instance"""
    c, seed, with_fixed = arg
    return bits(refit_only(c, seed, "first_after_fixed" if with_fixed else "first"))


def judge_fixed_fit(c, mk, names, x, info):
    """the fit of the instance whose parameter kfix is FIXED AWAY from the generating value (fixval = the
    spec's UserStart value): log-likelihood at its start, after the fit, and the best log-likelihood among
    the fits with one free parameter moved by +-2 % (local optimality of the constrained maximum)"""
    k = c["kfix"] - 1
    fixed = {"f_" + names[k]: c["fixval"] / 1e6}
    other = mk(**fixed)
    info["fx_ll0"] = qll(loglik(other, x))
    other.fit(x)
    par = [float(other.parameters[n]) for n in names]
    info["fx_ll"] = qll(loglik(other, x))
    info["fx_fin"] = bool(all(math.isfinite(v) for v in par))
    best = float("-inf")
    if info["fx_fin"]:
        for i, v in enumerate(par):
            if i == k or (c["fam"] == "ScipyGammaFloc" and i == 1):
                continue
            for sgn in (1.0, -1.0):
                q = list(par)
                q[i] = v + sgn * 0.02 * max(abs(v), 0.1)
                try:
                    ll = loglik(mk(**dict(zip(names, q))), x)
                except Exception:  # noqa
                    continue
                if ll == ll and ll > best:
                    best = ll
    info["fx_pert"] = qll(best)
    return other


def refit_only(c, seed, mode, info=None):
    """the fits of a case again (no likelihoods).  mode "all": all three; "first": only the first fit;
    "first_after_fixed": the first fit preceded by a fit of ANOTHER instance of the same family that has
    parameter kfix fixed at fixval"""
    with_fixed_first = mode == "first_after_fixed"
    vc = _vc()
    mk, names = _families(vc)[c["fam"]]
    fl = lambda q: [v / 1e6 for v in q]
    theta, start = fl(c["theta"]), fl(c["start"])
    x = draw(c["fam"], theta, c["n"], np.random.default_rng(data_seed(seed, c)))
    with warnings.catch_warnings():
        warnings.simplefilter("ignore")
        if with_fixed_first and info is not None:
            judge_fixed_fit(c, mk, names, x, info)
        elif with_fixed_first:
            other = mk(**{"f_" + names[c["kfix"] - 1]: c["fixval"] / 1e6})
            other.fit(x)
        obj = mk() if c["kind"] == "default" else mk(**dict(zip(names, start)))
        obj.fit(x)
        p1f = [float(obj.parameters[k]) for k in names]
        if mode != "all":
            return p1f
        out = list(p1f)
        if c["fam"] != "VonMises":
            o2 = mk()
            o2.fit((c["num"] / c["den"]) * x)
            out += [float(o2.parameters[k]) for k in names]
        o3 = mk(**dict(zip(names, p1f))) if all(math.isfinite(v) for v in p1f) else mk()
        o3.fit(x)
        return out + [float(o3.parameters[k]) for k in names]


def run_chunk(arg):
    """one worker process = one history: pass A runs the life cycles of its cases in the given order (and
    measures the likelihoods), pass B runs all fits again in a different seeded order, pass C runs every first
    fit again after a fit of another instance of the family with a fixed parameter."""
    widx, items, seed = arg
    # history-free references first, while nothing has been fitted in this worker: every first fit as the only
    # work of a process forked from it, clean (bits10) and after the fixed-parameter instance (bits1H)
    fresh = run_fresh(fresh_first_fit, [(c, seed, h) for _, c in items for h in (False, True)], 1)
    fresh = [f if isinstance(f, list) else [] for f in fresh]
    recs = [run_case((rid, c, seed)) for rid, c in items]
    for k, r in enumerate(recs):
        r["bits10"], r["bits1H"] = fresh[2 * k], fresh[2 * k + 1]
    rng = np.random.default_rng(seed * 1000 + widx + 12)
    for with_fixed, field in ((False, "bitsB"), (True, "bits1C")):
        for j in rng.permutation(len(items)):
            r, c = recs[j], items[j][1]
            if r["exc"]:
                r.setdefault(field, [])
                continue
            try:
                info = {} if with_fixed else None
                r[field] = bits(refit_only(c, seed, "first_after_fixed" if with_fixed else "all", info))
                if info:
                    r.update(info)
            except Exception as e:  # noqa
                r["exc"] = f"{'history' if with_fixed else 'second order'}: {type(e).__name__}: {e}"[:200]
                r[field] = []
    for r in recs:
        for f in ("bitsA", "bits1A", "bitsB", "bits1C", "bits10", "bits1H"):
            r.setdefault(f, [])
        r.setdefault("fx_ll0", NEG); r.setdefault("fx_ll", 0); r.setdefault("fx_pert", NEG); r.setdefault("fx_fin", True)
        r["kfix"] = next(c["kfix"] for rid, c in items if rid == r["id"])
    return recs


# ----------------------------------------------------------------------------------
# explicit deterministic cases at the low end of the claimed range (spec/FitLawsCases.tla)

def lowend_key(c):
    _, names = _families(_vc())[c["fam"]]
    th = ",".join(f"{v / 1e6:g}" for v in c["theta"])
    fixed = names[c["fix"] - 1] if c["fix"] else "none"
    return f"lowend {c['fam']} fixed={fixed} theta=({th}) n={c['n']} seed={c['seed']}"


def lowend_record(rid, c):
    """default-start MLE of x and of 10*x (a parameter optionally fixed at its generating value), projected
    into the life-cycle record (the re-fit transition is not exercised: p3 = p1)"""
    vc = _vc()
    mk, names = _families(vc)[c["fam"]]
    theta, thetac = [v / 1e6 for v in c["theta"]], [v / 1e6 for v in c["thetac"]]
    rng = np.random.default_rng(c["seed"])
    fam, n = c["fam"], c["n"]
    if fam == "Weibull":
        x = theta[0] * rng.weibull(theta[1], n)
    elif fam == "GeneralizedGamma":
        x = rng.gamma(theta[0], size=n) ** (1 / theta[1]) / theta[2]
    else:
        u = rng.uniform(size=n)
        x = theta[0] * (-np.log1p(-u ** (1 / theta[2]))) ** (1 / theta[1])
    fixed = {"f_" + names[c["fix"] - 1]: theta[c["fix"] - 1]} if c["fix"] else {}
    fixedc = {"f_" + names[c["fix"] - 1]: thetac[c["fix"] - 1]} if c["fix"] else {}
    rec = dict(id=rid, fam=fam, num=10, den=1, kind="default", n=n, label="lowend", exc="", kfix=0,
               bitsA=[], bitsB=[], bits10=[], bits1A=[], bits1C=[], bits1H=[],
               fx_ll0=NEG, fx_ll=0, fx_pert=NEG, fx_fin=True, mean1=0, std1=0, mean2=0, std2=0)
    with warnings.catch_warnings():
        warnings.simplefilter("ignore")
        try:
            o1 = mk(**fixed)
            p0, _ = qpar(o1.parameters[k] for k in names)
            ll0 = loglik(o1, x)
            o1.fit(x)
            p1, fin1 = qpar(o1.parameters[k] for k in names)
            o2 = mk(**fixedc)
            xc = 10.0 * x
            ll0c = loglik(o2, xc)
            o2.fit(xc)
            p2, fin2 = qpar(o2.parameters[k] for k in names)
            rec.update(p0=p0, start=p0, p1=p1, p2=p2, p3=p1, fin1=fin1, fin2=fin2, fin3=fin1,
                       ll0=qll(ll0), ll1=qll(loglik(o1, x)),
                       llg=qll(loglik(mk(**dict(zip(names, theta))), x)),
                       ll0c=qll(ll0c), ll2=qll(loglik(o2, xc)), llgc=qll(loglik(mk(**dict(zip(names, thetac))), xc)))
            rec["ll3"] = max(rec["ll1"], rec["llg"])     # neutral: there is no re-fit transition in these cases
        except Exception as e:  # noqa
            rec.update(exc=f"{type(e).__name__}: {e}"[:200], fin1=True, fin2=True, fin3=True)
    return rec


# ----------------------------------------------------------------------------------
# small-magnitude 3-parameter Weibull data fitted from the generating / a near user start (spec/FitLawsSmall.tla)

def small_key(c):
    th = ",".join(f"{v / 1e6:g}" for v in c["theta"])
    return (f"smallscale {c['fam']} theta=({th}) n={c['n']} c={c['num']}/{c['den']} "
            f"start={c['startkind']} rep={c['rep']}")


def small_seed(seed, c):
    return zlib.crc32(f"{seed}|smallscale|{c['theta']}|{c['n']}|{c['rep']}".encode())


def small_record(rid, c, seed):
    """start s -> fit(x) (p1); ScaleMap(s) -> fit(c x) (p2); p1 -> re-fit(x) (p3); projected into the life-cycle
    record (no history fields: the bit patterns are empty, kfix = 0)"""
    vc = _vc()
    mk, names = _families(vc)[c["fam"]]
    fl = lambda q: [v / 1e6 for v in q]
    theta, thetac, start, startc = fl(c["theta"]), fl(c["thetac"]), fl(c["start"]), fl(c["startc"])
    cf = c["num"] / c["den"]
    x = draw(c["fam"], theta, c["n"], np.random.default_rng(small_seed(seed, c)))
    med = float(np.median(x))
    if not (0.5 * c["scale"] <= med * 1000 <= 2.0 * c["scale"]):
        raise Machinery(f"nominal data scale of {small_key(c)} is {c['scale']} milli but the sample median is {med}")
    rec = dict(id=rid, fam=c["fam"], num=c["num"], den=c["den"], kind=c["startkind"], n=c["n"], label="smallscale",
               start=c["start"], exc="", kfix=0, bitsA=[], bitsB=[], bits10=[], bits1A=[], bits1C=[], bits1H=[],
               fx_ll0=NEG, fx_ll=0, fx_pert=NEG, fx_fin=True, mean1=0, std1=0, mean2=0, std2=0)
    with warnings.catch_warnings():
        warnings.simplefilter("ignore")
        try:
            o1 = mk(**dict(zip(names, start)))
            p0, _ = qpar(o1.parameters[k] for k in names)
            ll0 = loglik(o1, x)
            o1.fit(x)
            p1f = [float(o1.parameters[k]) for k in names]
            p1, fin1 = qpar(p1f)
            xc = cf * x
            o2 = mk(**dict(zip(names, startc)))
            ll0c = loglik(o2, xc)
            o2.fit(xc)
            p2, fin2 = qpar(o2.parameters[k] for k in names)
            o3 = mk(**dict(zip(names, p1f))) if fin1 else mk()
            o3.fit(x)
            p3, fin3 = qpar(o3.parameters[k] for k in names)
            rec.update(p0=p0, p1=p1, p2=p2, p3=p3, fin1=fin1, fin2=fin2, fin3=fin3,
                       ll0=qll(ll0), ll1=qll(loglik(o1, x)), llg=qll(loglik(mk(**dict(zip(names, theta))), x)),
                       ll0c=qll(ll0c), ll2=qll(loglik(o2, xc)), llgc=qll(loglik(mk(**dict(zip(names, thetac))), xc)),
                       ll3=qll(loglik(o3, x)))
        except Exception as e:  # noqa
            rec.update(exc=f"{type(e).__name__}: {e}"[:200], fin1=True, fin2=True, fin3=True)
    return rec


def judge_small(ctx, smalls, srecs, selftest_too=False):
    muts = []
    if selftest_too:
        good = next((r for r in srecs if r["exc"] == "" and r["n"] == 1000), None)
        if good is not None:
            # the location of the fit of c x is not c times that of x (by 3 % of the scale) and the level differs
            muts.append(dict(good, id=9_500_000, p2=good["p2"][:2] + [good["p2"][2] + good["p2"][0] * 3 // 100],
                             ll2=good["ll2"] - 70))
            muts.append(dict(good, id=9_500_001, ll1=good["llg"] - 60, ll0=NEG))
    fail = ctx.validate("Trace_C12", "Trace_C12.cfg", srecs + muts)
    for m, clause in zip(muts, ("ScaleEquivariant", "AtLeastGenerating.fit")):
        if clause not in fail.get(m["id"], []):
            raise Machinery(f"self-test: corrupted small-scale record did not fail {clause}: got {fail.get(m['id'])}")
        fail.pop(m["id"])
    for c, r in zip(smalls, srecs):
        ctx.case(small_key(c), r["exc"] == "" and r["llg"] > NEG)
        for clause in fail.get(r["id"], []):
            detail = {k: r.get(k) for k in ("exc", "p0", "p1", "p2", "p3", "ll0", "llg", "ll1", "ll3", "ll0c", "llgc", "ll2")}
            ctx.violation(clause, small_key(c), f"record={detail} data_seed={small_seed(ctx.seed, c)}", replay=c)
    return fail


def case_key(c):
    th = ",".join(f"{v / 1e6:g}" for v in c["theta"])
    # no sample-specific numbers: family, class (regime label), generating vector of the class, n, c, start, rep
    return (f"{c['fam']} class={c['label']} theta=({th}) n={c['n']} c={c['num']}/{c['den']} "
            f"start={c['kind']} rep={c['rep']}")


def execute(ctx, cases, base=0):
    items = [(base + i + 1, c) for i, c in enumerate(cases)]
    procs = max(1, min(12, (os.cpu_count() or 2) - 2, len(items)))
    chunks = [(w, items[w::procs], ctx.seed) for w in range(procs)]
    if procs > 1:
        # fresh forked workers: nothing has been fitted in them before pass A
        with multiprocessing.get_context("fork").Pool(procs) as pool:
            parts = pool.map(run_chunk, chunks, chunksize=1)
    else:
        parts = [run_chunk(chunks[0])]
    byid = {r["id"]: r for part in parts for r in part}
    return [byid[rid] for rid, _ in items]


def judge(ctx, cases, recs):
    failing = ctx.validate("Trace_C12", "Trace_C12.cfg", recs)
    for c, r in zip(cases, recs):
        nontrivial = r["exc"] == "" and r["p1"] != r["p0"] and r["llg"] > NEG
        ctx.case(case_key(c), nontrivial)
        for clause in failing.get(r["id"], []):
            detail = {k: r.get(k) for k in ("exc", "p0", "p1", "p2", "p3", "ll0", "llg", "ll1", "ll3", "ll0c", "llgc", "ll2")}
            if clause in ("CaseOrderIndependent", "FixedFitDoesNotLeak"):
                detail = {"kfix": c["kfix"], "fixval": c["fixval"], "p1": r.get("p1"),
                          "first_fit_bits_clean": r.get("bits1A"), "first_fit_bits_after_fixed_instance": r.get("bits1C"),
                          "same_in_other_order": r.get("bitsA") == r.get("bitsB")}
            ctx.violation(clause, case_key(c), f"record={detail} data_seed={data_seed(ctx.seed, c)}", replay=c)
    return failing


def selftest(ctx, cases, recs, failing):
    """every clause must be able to fail: corrupt good records and expect the clause back"""
    good = [(c, r) for c, r in zip(cases, recs) if r["id"] not in failing and r["exc"] == ""]
    sc = next((r for c, r in good if c["fam"] == "GeneralizedGamma" and c["n"] >= 500), None)
    ln = next((r for c, r in good if c["fam"] == "LogNormalNormFit"), None)
    if sc is None or ln is None:
        if ctx.violations:      # nothing accepted to corrupt because the code under test is rejected anyway
            ctx.log("self-test skipped: no accepted GeneralizedGamma / LogNormalNormFit record (violations reported)")
            return
        raise Machinery("self-test: no accepted GeneralizedGamma / LogNormalNormFit record to corrupt")
    muts = []

    def m(base, clause, **upd):
        r = dict(base)
        r.update(upd)
        r["id"] = 9_000_000 + len(muts)
        muts.append((clause, r))

    m(sc, "NoLikelihoodLoss.refit", ll3=sc["ll1"] - 60)
    m(sc, "NoLikelihoodLoss.fit", ll0=sc["ll1"] + 60)
    m(sc, "NoLikelihoodLoss.scaled", ll0c=sc["ll2"] + 60)
    m(sc, "AtLeastGenerating.fit", ll1=sc["llg"] - 60, ll0=NEG)
    m(sc, "AtLeastGenerating.scaled", llgc=sc["ll2"] + 60)
    m(sc, "AtLeastGenerating.refit", ll3=sc["llg"] - 60)
    m(sc, "Admissible", p2=[-sc["p2"][0]] + sc["p2"][1:])
    m(sc, "Admissible", fin3=False)
    # the fit of c*d ends elsewhere AND on a lower likelihood level (reciprocal scale inverted / shapes swapped)
    m(sc, "ScaleEquivariant", p2=sc["p2"][:2] + [sc["p1"][2] * sc["num"] // sc["den"]], ll2=sc["ll2"] - 70)
    m(sc, "ScaleEquivariant", p2=[sc["p2"][1], sc["p2"][0], sc["p2"][2]], ll2=sc["ll2"] - 70)
    m(sc, "StartAsSpecified", p0=[v + 5 for v in sc["p0"]])
    m(sc, "UnexpectedException", exc="ValueError: x")
    m(sc, "NoLikelihoodLoss.fixed", fx_ll0=sc["fx_ll"] + 60)
    m(sc, "LocallyOptimal.fixed", fx_pert=sc["fx_ll"] + 60)
    m(sc, "CaseOrderIndependent", bitsB=sc["bitsB"][:-1] + [sc["bitsB"][-1] ^ 1])        # last bit of one estimate
    m(sc, "FixedFitDoesNotLeak", bits1C=bits([1.0]) + sc["bits1C"][3:])                  # a stale constant
    m(sc, "CaseOrderIndependent", bits10=sc["bits10"][:-1] + [sc["bits10"][-1] ^ 1])
    m(sc, "FixedFitDoesNotLeak", bits1H=bits([1.0]) + sc["bits1H"][3:])
    m(ln, "MomentsMatch", p1=[ln["p1"][0], ln["p1"][1] + 40])
    res = ctx.validate("Trace_C12", "Trace_C12.cfg", [r for _, r in muts])
    for clause, r in muts:
        if clause not in res.get(r["id"], []):
            raise Machinery(f"self-test: corrupted record did not fail clause {clause}: got {res.get(r['id'])}")
    ctx.log(f"self-test: {len(muts)} corrupted records rejected with the expected clause")


def run(ctx):
    ctx.rule = ("cases enumerated by TLC from spec/FitLaws.tla: family x regular parameter class x n in {100,500,5000} "
                "x scale factor c (quick {1/4,4}; thorough {1/10,1/4,1/2,2,4,10}) keeping the nominal data scale in "
                "[0.05,20] x start kind {default, user (near the generating values), far (an order of magnitude off, n=500 only)} x replicate (quick 1, thorough 3); data drawn with numpy from "
                "the class (seeded by VERIF_SEED, family, class, n, replicate). distinct = distinct case key; "
                "non-trivial = the first fit moved the parameters away from the start values and the generating "
                "log-likelihood is finite. Every case is run three times in its worker process (given order, "
                "another seeded order, after a fixed-parameter instance of the same family); plus 18 fixed low-end "
                "default-start cases and the small-magnitude grid of spec/FitLawsSmall.tla (3-parameter Weibull, alpha "
                "0.05..0.2 x gamma {0.4, 1} alpha x beta {1.5,2,3} x n {200,1000,5000} x start {generating, near user "
                "start} x replicate, c = 20, data seeded by VERIF_SEED)")
    ctx.trusted = ["TLC 1.8 evaluating spec/FitLawsOps.tla clause operators",
                   "numpy.random.Generator samplers used to draw own-family data (harness/c12.py draw())",
                   "sum(log dist.pdf(data)) evaluated with the object's own pdf (pdf fidelity is C05's subject)",
                   "fixed-point projection: parameters 1e6, log-likelihoods 1e3, -inf clamped"]
    ctx.assumptions = ["log-likelihood tolerance 0.05 absolute, equivariance 2e-3 relative (stated in FitLawsOps.tla)",
                       "ScipyDistribution is exercised through gumbel_r (free loc, scale) and gamma with f_loc=0 "
                       "(the free-location gamma likelihood is a ridge on which Nelder-Mead stops 1e-3 below the "
                       "maximum with parameters 2 % apart - not a regular region)",
                       "von Mises is excluded from scaling",
                       "optimality is sampled: a counter-example refutes, absence of one does not prove global optimality"]
    ctx.model_check("FitLaws", ctx.pick("MC_FitLaws_quick.cfg", "MC_FitLaws_thorough.cfg"),
                    must_cover=("FitOther", "FitData", "FitScaled", "ReFit"), workers=4)
    ctx.model_check("FitLaws", "MC_FitLaws_mut_start.cfg", expect_violation="AtLeastGenerating", workers=2)
    ctx.model_check("FitLaws", "MC_FitLaws_mut_swap.cfg", expect_violation="AtLeastGenerating", workers=2)
    ctx.model_check("FitLaws", "MC_FitLaws_mut_recip.cfg", expect_violation="ScaleEquivariant", workers=2)
    ctx.model_check("FitLaws", "MC_FitLaws_mut_log.cfg", expect_violation="ScaleEquivariant", workers=2)
    ctx.model_check("FitLaws", "MC_FitLaws_mut_shared.cfg", expect_violation="HistoryIndependent", workers=2)
    cases = ctx.generate("FitLaws", ctx.pick("Gen_FitLaws_quick.cfg", "Gen_FitLaws_thorough.cfg"))
    cases.sort(key=case_key)
    _vc()
    recs = execute(ctx, cases)
    failing = judge(ctx, cases, recs)
    ctx.log(f"{len(recs)} fit life cycles judged, {len(failing)} rejected")
    # explicit deterministic cases: default-start MLE at the low end of the claimed range
    lows = sorted(ctx.generate("FitLawsCases", "Gen_FitLawsCases.cfg"), key=lowend_key)
    lrecs = [lowend_record(10_000_000 + i, c) for i, c in enumerate(lows)]
    lfail = ctx.validate("Trace_C12", "Trace_C12.cfg", lrecs)
    for c, r in zip(lows, lrecs):
        ctx.case(lowend_key(c), r["exc"] == "")
        for clause in lfail.get(r["id"], []):
            detail = {k: r.get(k) for k in ("exc", "p1", "p2", "llg", "ll1", "llgc", "ll2")}
            ctx.violation(clause, lowend_key(c), f"record={detail}", replay=c)
    ctx.log(f"{len(lrecs)} low-end cases judged, {len(lfail)} rejected")
    ctx.notes["lowend_cases"] = len(lrecs)
    # small-magnitude 3-parameter Weibull data, fitted from the generating / a near user start (x and 20 x)
    smalls = sorted(ctx.generate("FitLawsSmall", ctx.pick("Gen_FitLawsSmall_quick.cfg", "Gen_FitLawsSmall_thorough.cfg")),
                    key=small_key)
    srecs = [small_record(20_000_000 + i, c, ctx.seed) for i, c in enumerate(smalls)]
    sfail = judge_small(ctx, smalls, srecs, selftest_too=True)
    ctx.log(f"{len(srecs)} small-magnitude generating/near-start cases judged, {len(sfail)} rejected")
    ctx.notes["smallscale_cases"] = len(srecs)
    selftest(ctx, cases, recs, failing)
    fams = sorted({c["fam"] for c in cases})
    ctx.notes["families"] = fams
    ctx.notes["cases_per_family"] = {f: sum(1 for c in cases if c["fam"] == f) for f in fams}
    ctx.notes["cases_by_label"] = {lab: sum(1 for c in cases if c["label"] == lab)
                                   for lab in sorted({c["label"] for c in cases})}
    for want in ("ExponentiatedWeibull", "GeneralizedGamma", "Weibull"):
        i = next(i for i, c in enumerate(cases) if c["fam"] == want and c["label"] == "regular")
        ctx.sample({"case": cases[i], "record": recs[i]})


def replay(ctx, case):
    c = case["case"]
    _vc()
    if c.get("kind") == "lowend":
        r = lowend_record(1, c)
        ctx.case(lowend_key(c), True)
        for clause in ctx.validate("Trace_C12", "Trace_C12.cfg", [r]).get(1, []):
            ctx.violation(clause, lowend_key(c), f"record={r}", replay=c)
        return
    if c.get("kind") == "smallscale":
        judge_small(ctx, [c], [small_record(1, c, ctx.seed)])
        return
    recs = execute(ctx, [c])
    judge(ctx, [c], recs)
