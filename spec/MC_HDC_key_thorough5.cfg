SPECIFICATION Spec
CONSTANTS S1 = 5 S2 = 0 S3 = 0  MaxV = 5  Start = "P"  Strict = FALSE  Cross = FALSE  Close = FALSE  LabelBoundary = FALSE  RankByArray = FALSE  Coarse = 2
CHECK_DEADLOCK FALSE
INVARIANT Content
INVARIANT Tight
INVARIANT Densest
INVARIANT DensityOrder
INVARIANT FmByDensity
INVARIANT Threshold
INVARIANT Sandwich
INVARIANT WarnIff
INVARIANT WarnAll
INVARIANT PrefixOfOrder
INVARIANT ErosionIsBoundary
INVARIANT CoordsAreBoundary
INVARIANT EachOnce
