SPECIFICATION SpecSel
CONSTANTS SelN = 5  SelMaxV = 3
CHECK_DEADLOCK FALSE
