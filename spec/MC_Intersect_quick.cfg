SPECIFICATION Spec
CONSTANTS L = 3  NP = 3  NQ = 2  StrictUpper = FALSE  NoBox = FALSE
CHECK_DEADLOCK FALSE
INVARIANT ExactlyTheCrossings
INVARIANT OnBoth
INVARIANT BoxFilterSound
INVARIANT TouchingKept
