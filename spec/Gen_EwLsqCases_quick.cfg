SPECIFICATION Spec
CONSTANTS ZPWeights = {"none", "quadratic", "array"}  ZPSizes = {200}  NSet = {30, 200, 5000}  Reps = {1}
CHECK_DEADLOCK FALSE
INVARIANT Emit
