----------------------------- MODULE Trace_C04 -----------------------------
(* Trace validation for C04 (AndContour / OrContour).  One record = one contour:         *)
(*   mode, alpha = a/b, allowed_error = en/ed, n, the nominal theta table (micro-degrees),*)
(*   per ray the hook events of the search loop (count, rel_dist and vector per          *)
(*   iteration, final vector), the returned coordinates (1e-6 units), exceedance counts   *)
(*   re-measured by the harness on the sample at every returned point and at every ray's  *)
(*   final vector, the number of 'could not achieve the required precision' warnings.     *)
(* "Exceeding" is STRICT: an observation whose coordinate EQUALS the point's coordinate    *)
(* does not exceed it.  Every count the harness supplies (ptcount, recount) is             *)
(* #{i : x_i > vx /\ y_i > vy} (AND) or #{i : x_i > vx \/ y_i > vy} (OR) on the sample as   *)
(* the caller handed it over (double precision); ptties = how many more observations a     *)
(* count with >= would include (exact zeros of a zero-inflated variable at the theta = 0   *)
(* ray, lattice values of a rounded sample) - reported, not judged.                        *)
(* alpha = a / b.  An alpha handed over as np.float32 (dyadic = TRUE) is another real       *)
(* number, a / b (1 + d), |d| <= 6e-8; the harness keeps such a record only if the          *)
(* tolerance test of every judged count has the same outcome for both numbers in exact      *)
(* arithmetic (else tie = TRUE), and supplies nref = floor(100 / float(alpha)) evaluated    *)
(* with fractions.Fraction (100 * 2^37 does not fit 32 bit).                                *)
(* The loop events of every ray must be a behaviour of AndOrSearch!Iterate (branch taken, *)
(* continuation / exit decisions, iteration cap); the returned points must be the rays'   *)
(* final vectors (OR: exactly those inside the 1.1*max range, in order), closed as        *)
(* documented.                                                                           *)
EXTENDS AndOrOps, Json, IOUtils, TLC

TraceLog == ndJsonDeserialize(IOEnv.TRACE_FILE)
VARIABLE l

MaxIterations == 100
RdTol == 4            \* rel_dist recurrence tolerance, units of 1e-8 (float rounding of 0.1 * 2^-k sums)
AngTol == 20          \* micro-degrees
PosTol == 2           \* returned coordinate vs logged final vector, units of 1e-6

RayWarned(ray) == Len(ray.iters) = MaxIterations

(* ---- one ray: events e[k] = [count, rd (1e-8), vx, vy (1e-6)] ---- *)
RECURSIVE RayOk(_, _, _, _, _)
(* returns the sequence of failing clause names for iterations k..Len(evs); step = current *)
(* step size in 1e-8 units, tracked with halving                                            *)
RayOk(r, ray, k, step, acc) ==
    LET evs == ray.iters m == Len(evs) IN
    IF k > m THEN acc
    ELSE
      LET e == evs[k]
          above == Above(e.count, r.n, r.a, r.b)
          nstep == IF above THEN step ELSE step \div 2
          expectedNext == IF above THEN e.rd + step ELSE e.rd - (step \div 2)
          cont == k < m                          \* the code went on to another iteration
          strictIn == StrictlyWithin(e.count, r.n, r.a, r.b, r.en, r.ed)
          strictOut == ~InTol(e.count, r.n, r.a, r.b, r.en, r.ed)
          c1 == IF cont /\ ~Within(evs[k + 1].rd, expectedNext, RdTol + k) THEN <<"SearchStep">> ELSE <<>>
          c2 == IF cont /\ strictIn THEN <<"ContinuedAlthoughWithinTolerance">> ELSE <<>>
          c3 == IF ~cont /\ strictOut /\ k < MaxIterations THEN <<"StoppedOutsideTolerance">> ELSE <<>>
          c4 == IF k > MaxIterations THEN <<"IterationCap">> ELSE <<>>
      IN RayOk(r, ray, k + 1, nstep, acc \o c1 \o c2 \o c3 \o c4)

(* Conformance of the observed loop to AndOrSearch.tla (start at 0.2, step recurrence, continue /  *)
(* stop decisions, cap of 100 iterations) - reported as CONFORMANT and counted in the evidence,   *)
(* NOT a verdict: another search that meets the property is as good.                              *)
RayConformant(r, ray) ==
    Len(ray.iters) > 0 /\ RayOk(r, ray, 1, 10000000, <<>>) = <<>> /\ ray.iters[1].rd = 20000000

(* Verdict clauses per ray: what the code reports about a ray must be consistent with the sample  *)
RayClauses(r, ray) ==
    LET m == Len(ray.iters) IN
    IF m = 0 THEN <<"NoIterations">>
    ELSE
      (IF <<ray.iters[m].vx, ray.iters[m].vy>> # <<ray.vx, ray.vy>> THEN <<"PointIsLastEvaluated">> ELSE <<>>)
      \o (IF ray.recount # ray.iters[m].count THEN <<"CountIsExceedanceAtPoint">> ELSE <<>>)
      \o (IF ~Within(ray.angle, ray.theta, AngTol) /\ ~(ray.vx = 0 /\ ray.vy = 0) THEN <<"OnRay">> ELSE <<>>)
      \o (IF ~RayWarned(ray) /\ ~InTol(ray.iters[m].count, r.n, r.a, r.b, r.en, r.ed) /\ r.nwarn = 0
          THEN <<"StoppedOutsideToleranceWithoutWarning">> ELSE <<>>)

RECURSIVE AllRays(_, _)
AllRays(r, i) == IF i > Len(r.rays) THEN <<>> ELSE RayClauses(r, r.rays[i]) \o AllRays(r, i + 1)

(* ---- the returned coordinates ---- *)
(* OR: a ray result is kept iff both coordinates are below 1.1 * max(sample) (xmaxc, ymaxc,   *)
(* 1e-6 units; rounding is monotone, ties at that resolution are flagged r.tie and skipped).  *)
KeptRays(r) == IF r.mode = "and" THEN [i \in 1..Len(r.rays) |-> i]
               ELSE SelectSeq([i \in 1..Len(r.rays) |-> i],
                              LAMBDA i : r.rays[i].vx < r.xmaxc /\ r.rays[i].vy < r.ymaxc)

PointsFromRays(r) == [j \in 1..Len(KeptRays(r)) |-> <<r.rays[KeptRays(r)[j]].vx, r.rays[KeptRays(r)[j]].vy>>]
NSearch(r) == IF r.mode = "and" THEN Len(r.coords) - 1 ELSE Len(r.coords) - 3

CoordClauses(r) ==
    LET ns == NSearch(r) IN
    IF ns < 0 THEN <<"Closure">>
    ELSE
      (IF ns # Len(KeptRays(r)) THEN <<"DroppedNotAltered">>
       ELSE IF \E j \in 1..ns : ~(Within(r.coords[j][1], PointsFromRays(r)[j][1], PosTol)
                                  /\ Within(r.coords[j][2], PointsFromRays(r)[j][2], PosTol))
            THEN <<"PointsAreRayResults">> ELSE <<>>)
      \o (IF r.mode = "and" /\ ~AndClosure(r.coords) THEN <<"Closure">> ELSE <<>>)
      \o (IF r.mode = "or" /\ ~OrClosure(r.coords) THEN <<"Closure">> ELSE <<>>)
      \o (IF Len(r.rays) # Len(r.thetas) \/ \E i \in 1..Min2(Len(r.rays), Len(r.thetas)) : r.rays[i].theta # r.thetas[i]
          THEN <<"ThetaTable">> ELSE <<>>)
      (* API-level statement of the property, independent of the hook: every returned search   *)
      (* point whose ray did not warn has exceedance within tolerance                           *)
      \o (IF \E j \in 1..Min2(Min2(ns, Len(r.ptcount)), Len(KeptRays(r))) :
               r.nwarn = 0 /\ ~InTol(r.ptcount[j], r.n, r.a, r.b, r.en, r.ed)
          THEN <<"WithinTolerance">> ELSE <<>>)

(* without hook events (hooks removed / refactored away) only the API-level statement is judged: *)
(* closure, points on the nominal rays in order (OR: an ordered subsequence), and at most nwarn  *)
(* search points outside the tolerance                                                          *)
RECURSIVE IsSubseq(_, _, _, _)
IsSubseq(xs, ys, i, j) == IF i > Len(xs) THEN TRUE
                          ELSE IF j > Len(ys) THEN FALSE
                          ELSE IF Within(xs[i], ys[j], AngTol) THEN IsSubseq(xs, ys, i + 1, j + 1)
                          ELSE IsSubseq(xs, ys, i, j + 1)
ApiClauses(r) ==
    LET ns == NSearch(r) IN
    IF ns < 0 THEN <<"Closure">>
    ELSE
      (IF r.mode = "and" /\ ~AndClosure(r.coords) THEN <<"Closure">> ELSE <<>>)
      \o (IF r.mode = "or" /\ ~OrClosure(r.coords) THEN <<"Closure">> ELSE <<>>)
      \o (IF r.mode = "and" /\ ns # Len(r.thetas) THEN <<"ThetaTable">> ELSE <<>>)
      \o (IF ~IsSubseq(r.ptangle, r.thetas, 1, 1) THEN <<"OnRay">> ELSE <<>>)
      \o (IF Cardinality({j \in 1..Min2(ns, Len(r.ptcount)) : ~InTol(r.ptcount[j], r.n, r.a, r.b, r.en, r.ed)}) > r.nwarn
          THEN <<"WithinTolerance">> ELSE <<>>)

(* when no sample is supplied and no n is given, n = int(100 / alpha) points are drawn *)
NRef(r) == IF r.dyadic THEN r.nref ELSE (100 * r.b) \div r.a
DefaultN(r) == IF r.defaultn /\ r.n # NRef(r) THEN <<"DefaultSampleSize">> ELSE <<>>

Verdict(r) ==
    IF r.exc # "" THEN
         (IF r.mode = "or" /\ r.exc = "IndexError" /\ r.hooked /\ Len(KeptRays(r)) = 0
          THEN AllRays(r, 1) ELSE <<"UnexpectedException">>)
    ELSE DefaultN(r) \o
         (IF r.tie THEN <<>>       \* range tie at 1e-6 resolution: not judged (counted as trivial)
          ELSE IF ~r.hooked THEN ApiClauses(r)
          ELSE AllRays(r, 1) \o CoordClauses(r) \o ApiClauses(r))

Init == l = 1
Next == /\ l <= Len(TraceLog)
        /\ LET r == TraceLog[l] v == Verdict(r) IN
             /\ (IF v = <<>> THEN TRUE ELSE PrintT(<<"VERDICT", r.id, v>>))
             /\ (IF r.hooked /\ r.exc = "" /\ (\A i \in 1..Len(r.rays) : RayConformant(r, r.rays[i]))
                     /\ r.nwarn = Cardinality({i \in 1..Len(r.rays) : RayWarned(r.rays[i])})
                 THEN PrintT(<<"CONFORMANT", r.id>>) ELSE TRUE)
        /\ l' = l + 1
Spec == Init /\ [][Next]_l
Consumed == l = Len(TraceLog) + 1 => PrintT(<<"CONSUMED", l - 1>>)
=============================================================================
