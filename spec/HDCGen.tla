------------------------------- MODULE HDCGen -------------------------------
(* Leg R for C02 / C15: TLC enumerates the configuration classes of a highest-density  *)
(* contour (the quantifier of the two properties); harness/hdc_common.py instantiates   *)
(* each class with a seeded random model over the shipped families and executes it on   *)
(* the real HighestDensityContour.                                                      *)
(*   dim     2 | 3                                                                      *)
(*   cond1   conditional_on of dimension 1: "none" | "zero"                             *)
(*   cond2   conditional_on of dimension 2 (3-D): "none" | "zero" | "one"               *)
(*   deltas  "scalar" | "list" | "default" (0.25 % of the range: 401 cells per axis, so *)
(*           2-D only)                                                                  *)
(*   limits  "explicit" | "reversed" ((max, min) tuples) | "default" (Monte-Carlo       *)
(*           marginal quantile: sample size ~ 1 / alpha, so not for the tiny alphas)    *)
(*   aniso   ratio of the cell sizes "1" | "3" | "10"                                   *)
(*   grid    "fit" (covers 1 - alpha) | "small" (cannot reach 1 - alpha: Warn path) |   *)
(*           "cut" (coarse grid + narrow conditionals: region in several pieces)        *)
(*   alpha   "tiny" 1e-6..4e-5 | "small" 1e-4..2.5e-3 | "mid" 0.01..0.05 | "big" 0.1..0.3 *)
(*                                                                                      *)
(* SpecSel enumerates the domain of MC_HDC_sel_*.cfg itself - every array P in          *)
(* [1..SelN -> 0..SelMaxV] and every limit L - to be executed on the real staticmethod  *)
(* cumsum_biggest_until as dyadic floats P/16, L/16 (exact sums, so cum = L ties occur). *)
EXTENDS Integers, Sequences, TLC, Json

CONSTANTS SelN, SelMaxV
VARIABLE done

Configs ==
    {c \in [dim : {2, 3}, cond1 : {"none", "zero"}, cond2 : {"none", "zero", "one"},
            deltas : {"scalar", "list", "default"}, limits : {"explicit", "reversed", "default"},
            aniso : {"1", "3", "10"}, grid : {"fit", "small", "cut"},
            alpha : {"tiny", "small", "mid", "big"}] :
        /\ (c.dim = 2 => c.cond2 = "none")
        /\ (c.deltas = "default" => c.dim = 2 /\ c.aniso = "1")
        /\ (c.limits = "default" => c.alpha # "tiny" /\ c.grid = "fit")
        /\ (c.grid = "cut" => c.cond1 = "zero" \/ c.cond2 # "none")
        /\ (c.deltas = "scalar" => c.aniso = "1")
        (* limits are documented as (min, max); _compute tolerates (max, min) via min()/max(),   *)
        (* but _check_grid derives the DEFAULT deltas as 0.25 % of limits[1] - limits[0] < 0,     *)
        (* the grid is empty and IndexError is raised.  Outside the documented input domain:     *)
        (* reported as a robustness remark, not exercised as a C02 case.                         *)
        /\ (c.limits = "reversed" => c.deltas # "default")}

Init == done = FALSE
Next == /\ ~done
        /\ \A c \in Configs : PrintT(<<"BEH", ToJson(c)>>)
        /\ done' = TRUE
Spec == Init /\ [][Next]_done

NextSel == /\ ~done
           /\ \A p \in [1..SelN -> 0..SelMaxV] : \A lim \in 0..(SelN * SelMaxV + 1) :
                 PrintT(<<"BEH", ToJson([P |-> p, L |-> lim])>>)
           /\ done' = TRUE
SpecSel == Init /\ [][NextSel]_done

(* the TYPE of alpha x limits given / default (harness/c02.py alpha_type_cases): alpha is a number in  *)
(* [1e-6, 0.3] - a Python float or a numpy scalar of any float type that represents it.  Models with   *)
(* independent marginals (the default upper limit marginal_icdf(1 - 0.2^n alpha) is then a closed-form  *)
(* quantile, no Monte-Carlo sample), explicit coarse cell sizes.                                        *)
(*   dim 2: alpha = 2^-10 (exact in all four types; 1 - 0.04 alpha is 1 in half precision)              *)
(*   dim 3: alpha = float32(2e-6) (not a float16; 1 - 0.008 alpha is 1 in single precision)             *)
(* An exception on any of them is a verdict (UnexpectedException); the content clauses are judged with  *)
(* float(alpha).                                                                                        *)
AlphaTypeCases ==
    {c \in [dim : {2, 3}, atype : {"float", "float64", "float32", "float16"}, limits : {"explicit", "default"}] :
        c.atype = "float16" => c.dim = 2}
NextAlphaType == /\ ~done
                 /\ \A c \in AlphaTypeCases : PrintT(<<"BEH", ToJson(c)>>)
                 /\ done' = TRUE
SpecAlphaType == Init /\ [][NextAlphaType]_done

(* the same with a key: densities K in [1..SelN -> 0..SelMaxV], probabilities P = K div 2   *)
(* (a monotone, not injective image), limits over the attainable sums                     *)
NextSelKey == /\ ~done
              /\ \A k \in [1..SelN -> 0..SelMaxV] : \A lim \in 0..(SelN * (SelMaxV \div 2) + 1) :
                    PrintT(<<"BEH", ToJson([K |-> k, L |-> lim])>>)
              /\ done' = TRUE
SpecSelKey == Init /\ [][NextSelKey]_done
=============================================================================
