SPECIFICATION Spec
CONSTANTS Scen = "fit"  NGiven = 2  MutKind = "falsy"  MutFam = "Normal"  MutName = "none"
CHECK_DEADLOCK FALSE
INVARIANT FixedHonoured
