"""C03: a supplied two-variable sample that is a pandas DataFrame (what
read_ec_benchmark_dataset returns and model.fit accepts) or a nested list is rejected
with an unrelated ValueError / AttributeError instead of giving the contour."""
import sys
import numpy as np
import pandas as pd
from virocon import DirectSamplingContour, GlobalHierarchicalModel
from virocon.predefined import get_OMAE2020_Hs_Tz

dist_descriptions, fit_descriptions, semantics = get_OMAE2020_Hs_Tz()
model = GlobalHierarchicalModel(dist_descriptions)
arr = model.draw_sample(2000, random_state=1)
alpha, deg_step = 0.05, 10

reference = DirectSamplingContour(model, alpha, deg_step=deg_step, sample=arr).coordinates
# oracle for the reference: every vertex k lies on the tangent lines k+1 and k+2
N = 360 // deg_step
for k in range(N):
    for j in (k + 1, k + 2):
        ang = np.pi / 2 + np.deg2rad(float(deg_step)) * (2 - j)
        nrm = np.array([np.cos(ang), np.sin(ang)])
        assert abs(reference[k] @ nrm - np.quantile(arr @ nrm, 1 - alpha)) < 1e-9

bad = 0
df = pd.DataFrame(arr, columns=["Hs", "Tz"])
model.fit(df, fit_descriptions)  # the same DataFrame is accepted by fit
model = GlobalHierarchicalModel(dist_descriptions)
for label, sample in (("DataFrame", df), ("nested list", arr.tolist())):
    try:
        coords = DirectSamplingContour(model, alpha, deg_step=deg_step, sample=sample).coordinates
        ok = np.allclose(coords, reference, rtol=1e-12, atol=1e-12)
        print(label, "-> contour", "equal to the ndarray result" if ok else "DIFFERENT")
        bad += not ok
    except Exception as e:  # noqa
        print(label, "->", type(e).__name__, e)
        bad += 1
sys.exit(1 if bad else 0)
