SPECIFICATION SpecSel
CONSTANTS SelN = 6  SelMaxV = 2
CHECK_DEADLOCK FALSE
