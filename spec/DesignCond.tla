----------------------------- MODULE DesignCond -----------------------------
(* calculate_design_conditions as a state machine over star-shaped lattice polygons,    *)
(* checked against DesignCondOps!Design.                                                 *)
(*   Close : pick the columns (swap_axis), append the first point                        *)
(*   Probe : for every abscissa x collect one ordinate per edge of the closed polygon     *)
(*           whose closed x-range contains x (linear interpolation along the edge; for a   *)
(*           vertical edge the larger of its two ordinates), skip if there is none, else   *)
(*           keep the requested abscissa and the largest (UseMin: smallest) ordinate       *)
(*   Finish                                                                              *)
(* Algo = "edges" is the code as it is.  Named deviations (each must violate its          *)
(* invariant):  Algo = "open_ends": an edge does not report a crossing at an END of its     *)
(* x-range - what the former generic line-line solve did within round-off of a vertex      *)
(* (repaired by eab52a1);  Algo = "probe_max" / "probe_range": the former vertical probe    *)
(* line y in [min - m, max + m] with m = 0.1 max resp. 0.1 (max - min), parallel edges      *)
(* not reported - "probe_max" is too short when max < 0 (YDown > 2(G-1) exposes it);       *)
(* MaxHits = 2 is the removed `assert len(x) <= 2`;  UseMin = np.min for np.max.           *)
EXTENDS DesignCondOps, TLC, Json

CONSTANTS G,          \* vertices on {0,2,..,2(G-1)}^2 (+ shifts), star centre (G-1, G-1)
          MaxV,       \* at most MaxV vertices
          XLeft, YDown,  \* the lattice is shifted left / down by this many units (>= 0)
          UseMin, MaxHits, Algo,
          BothOrders  \* abscissa lists ascending and descending (FALSE: ascending only)
VARIABLES pc, P, X, swap, cl, out, err

vars == <<pc, P, X, swap, cl, out, err>>

XShift == -XLeft
YShift == -YDown
C == <<G - 1 + XShift, G - 1 + YShift>>
Lat == {<<2 * i + XShift, 2 * j + YShift>> : i \in 0..(G - 1), j \in 0..(G - 1)}
Cr(o, a, b) == (a[1] - o[1]) * (b[2] - o[2]) - (a[2] - o[2]) * (b[1] - o[1])
Upper(p) == p[2] > C[2] \/ (p[2] = C[2] /\ p[1] > C[1])
AngLess(p, q) == IF Upper(p) # Upper(q) THEN Upper(p) ELSE Cr(C, p, q) > 0
SameRay(p, q) == Cr(C, p, q) = 0 /\ (p[1] - C[1]) * (q[1] - C[1]) + (p[2] - C[2]) * (q[2] - C[2]) > 0
RECURSIVE AngSort(_)
AngSort(S) == IF S = {} THEN <<>>
              ELSE LET m == CHOOSE a \in S : \A b \in S \ {a} : AngLess(a, b) IN <<m>> \o AngSort(S \ {m})
Rot(s, k) == [i \in 1..Len(s) |-> s[((i + k - 1) % Len(s)) + 1]]
(* counter-clockwise order around C with every turn < 180 degrees: star-shaped w.r.t. C *)
IsStar(s) == \A i \in 1..Len(s) : Cr(C, s[i], s[(i % Len(s)) + 1]) > 0
StarSets == {S \in SUBSET Lat : /\ Cardinality(S) >= 3 /\ Cardinality(S) <= MaxV
                                /\ \A a \in S : \A b \in S \ {a} : ~SameRay(a, b)
                                /\ IsStar(AngSort(S))}
Polys == UNION {{Rot(AngSort(S), k) : k \in 0..(Cardinality(S) - 1)} : S \in StarSets}

AllX(lo, hi) == [i \in 1..(hi - lo + 3) |-> lo - 2 + i]        \* lo-1 .. hi+1: every half unit, one outside each end
Rev(s) == [i \in 1..Len(s) |-> s[Len(s) + 1 - i]]
XLists(lo, hi) == IF BothOrders THEN {AllX(lo, hi), Rev(AllX(lo, hi))} ELSE {AllX(lo, hi)}

Init ==
    /\ pc = "start"
    /\ P \in Polys
    /\ swap \in BOOLEAN
    /\ X \in XLists(IF swap THEN YShift ELSE XShift, 2 * (G - 1) + (IF swap THEN YShift ELSE XShift))
    /\ cl = <<>> /\ out = <<>> /\ err = FALSE

Close ==
    /\ pc = "start"
    /\ cl' = Closed(IF swap THEN SwapXY(P) ELSE P)
    /\ pc' = "closed"
    /\ UNCHANGED <<P, X, swap, out, err>>

Ys == {cl[i][2] : i \in 1..Len(cl)}
(* probe limits times 10 *)
Lo10 == IF Algo = "probe_max" THEN 10 * SetMin(Ys) - SetMax(Ys) ELSE 10 * SetMin(Ys) - (SetMax(Ys) - SetMin(Ys))
Hi10 == IF Algo = "probe_max" THEN 10 * SetMax(Ys) + SetMax(Ys) ELSE 10 * SetMax(Ys) + (SetMax(Ys) - SetMin(Ys))

(* ordinates collected at x as a SEQUENCE (one entry per reporting edge) *)
Probing == Algo \in {"probe_max", "probe_range"}
EdgeReports(a, b, x) ==
    CASE Algo = "edges" -> Spans(a, b, x)
      [] Algo = "open_ends" -> Min2(a[1], b[1]) < x /\ x < Max2(a[1], b[1])
      [] OTHER -> a[1] # b[1] /\ Spans(a, b, x) /\ Lo10 < Hi10
                  /\ RatLeq(Rat(Lo10, 10), OrdAt(a, b, x)) /\ RatLeq(OrdAt(a, b, x), Rat(Hi10, 10))
EdgeOrd(a, b, x) == IF a[1] = b[1] THEN Rat(Max2(a[2], b[2]), 1) ELSE OrdAt(a, b, x)
RECURSIVE HitSeq(_, _)
HitSeq(x, i) ==
    IF i >= Len(cl) THEN <<>>
    ELSE LET a == cl[i] b == cl[i + 1] IN
           (IF EdgeReports(a, b, x) THEN <<EdgeOrd(a, b, x)>> ELSE <<>>) \o HitSeq(x, i + 1)

RECURSIVE ProbeFrom(_)
ProbeFrom(k) ==
    IF k > Len(X) THEN <<>>
    ELSE LET h == HitSeq(X[k], 1) S == {h[m] : m \in 1..Len(h)} IN
           (IF h = <<>> THEN <<>>
            ELSE << <<X[k], IF UseMin THEN MinRat(S) ELSE MaxRat(S)>> >>) \o ProbeFrom(k + 1)

Probe ==
    /\ pc = "closed"
    /\ err' = \E k \in 1..Len(X) : Len(HitSeq(X[k], 1)) > MaxHits
    /\ out' = ProbeFrom(1)
    /\ pc' = "probed"
    /\ UNCHANGED <<P, X, swap, cl>>

Finish ==
    /\ pc = "probed"
    /\ pc' = "done"
    /\ UNCHANGED <<P, X, swap, cl, out, err>>

Next == Close \/ Probe \/ Finish
Spec == Init /\ [][Next]_vars

(* leg R: the initial states are the cases; nothing is explored *)
GenSpec == Init /\ [][UNCHANGED vars]_vars
EmitCase == PrintT(<<"BEH", ToJson([poly |-> P, xs |-> X, swap |-> swap])>>)

----------------------------------------------------------------------------
Done == pc = "done"
Target == IF swap THEN SwapXY(P) ELSE P
SameRows(s, t) == Len(s) = Len(t) /\ \A k \in 1..Len(s) : s[k][1] = t[k][1] /\ RatEq(s[k][2], t[k][2])

NoError == Done => ~err
DesignHolds == Done /\ ~err => SameRows(out, Design(Target, X))
(* every returned row lies on the polygon at the requested abscissa *)
OnContour == Done /\ ~err => \A k \in 1..Len(out) : \E r \in Hits(Target, out[k][1]) : RatEq(r, out[k][2])
(* swap_axis = exchanging the coordinates of the polygon *)
SwapIsExchange == Done /\ ~err /\ swap => SameRows(out, Design(SwapXY(P), X))
(* a polygon meets every abscissa within its extent: nothing inside is omitted *)
InsideKept == Done /\ ~err =>
    \A k \in 1..Len(X) : (XMin(Target) <= X[k] /\ X[k] <= XMax(Target)) => \E m \in 1..Len(out) : out[m][1] = X[k]
=============================================================================
