SPECIFICATION Spec
CONSTANTS NSet = {30, 200, 1000, 5000}  Reps = {1, 2, 3, 4, 5}
CHECK_DEADLOCK FALSE
INVARIANT Emit
