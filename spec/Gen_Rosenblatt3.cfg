SPECIFICATION Spec
CONSTANTS MaxN = 3  K = 1  Rows = 1  Shapes = {1,2,3,4}
  Modes = {"icdf"}  Mut = "none"  Admissible = TRUE  EmitCfg = TRUE
CHECK_DEADLOCK FALSE
INVARIANT Emit
