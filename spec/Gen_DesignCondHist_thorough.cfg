SPECIFICATION Spec
CONSTANTS MaxLen = 5  KeepPolyline = FALSE
CHECK_DEADLOCK FALSE
INVARIANT UsesCurrent
INVARIANT Emit
