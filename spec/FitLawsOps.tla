----------------------------- MODULE FitLawsOps -----------------------------
(* C12 - maximum-likelihood fits do not lose likelihood and are scale-equivariant.     *)
(*                                                                                      *)
(* Operator module (no VARIABLES / CONSTANTS): the per-family tables (parameter roles,  *)
(* regular parameter classes, scale map), the case domain of the property and the       *)
(* clause operators.  FitLaws.tla explores the fit life cycle over it, Trace_C12.tla    *)
(* judges the measured life cycles of the real code with the same operators.            *)
(*                                                                                      *)
(* Fixed point: parameters Q 10^6 ("micro"), log-likelihoods Q 10^3 ("milli"),          *)
(* data scale in milli units, scale factor c = num/den.                                 *)
EXTENDS Integers, Sequences, FiniteSets, Fix

Families == <<"Weibull", "LogNormal", "Normal", "LogNormalNormFit", "ExponentiatedWeibull",
              "GeneralizedGamma", "VonMises", "ScipyGumbel", "ScipyGammaFloc">>

(* role of every parameter, in the order of Distribution.parameters *)
Roles(fam) ==
    CASE fam = "Weibull"              -> <<"scale", "shape", "location">>     \* alpha beta gamma
      [] fam = "LogNormal"            -> <<"logscale", "shape">>              \* mu sigma
      [] fam = "Normal"               -> <<"location", "scale">>              \* mu sigma
      [] fam = "LogNormalNormFit"     -> <<"scale", "scale">>                 \* mu_norm sigma_norm
      [] fam = "ExponentiatedWeibull" -> <<"scale", "shape", "shape">>        \* alpha beta delta
      [] fam = "GeneralizedGamma"     -> <<"shape", "shape", "recipscale">>   \* m c lambda_
      [] fam = "VonMises"             -> <<"shape", "angle">>                 \* kappa mu
      [] fam = "ScipyGumbel"          -> <<"location", "scale">>              \* loc scale
      [] fam = "ScipyGammaFloc"       -> <<"shape", "location", "scale">>     \* a loc(=0 fixed) scale

(* von Mises lives on the circle: multiplying angles by c is not a scale change *)
Scalable(fam) == fam # "VonMises"
(* LogNormalNormFitDistribution._fit_mle is by design the moment estimator *)
MomentEstimator(fam) == fam = "LogNormalNormFit"

MustBePositive(role) == role \in {"scale", "shape", "recipscale"}

(* ---- regular parameter classes: theta in micro units, nominal data scale (about the   *)
(* median) in milli units.  Weibull: shapes from the stated boundary 0.8 upwards.        *)
Classes(fam) ==
    CASE fam = "Weibull" ->
           << [theta |-> <<2500000, 1500000, 250000>>, scale |-> 2200],
              [theta |-> <<1000000, 2500000, 200000>>, scale |-> 1060],
              [theta |-> <<500000, 2000000, 100000>>, scale |-> 520],
              [theta |-> <<1000000, 800000, 200000>>, scale |-> 830],
              [theta |-> <<500000, 1200000, 100000>>, scale |-> 470],
              [theta |-> <<3000000, 2000000, 1500000>>, scale |-> 4000] >>
      [] fam = "LogNormal" ->
           << [theta |-> <<500000, 400000>>, scale |-> 1650],
              [theta |-> <<1500000, 200000>>, scale |-> 4480],
              [theta |-> <<-1000000, 600000>>, scale |-> 370],
              [theta |-> <<2000000, 300000>>, scale |-> 7390] >>
      [] fam = "Normal" ->
           << [theta |-> <<3000000, 1000000>>, scale |-> 3000],
              [theta |-> <<10000000, 2000000>>, scale |-> 10000],
              [theta |-> <<500000, 200000>>, scale |-> 500],
              [theta |-> <<-2000000, 500000>>, scale |-> 2000] >>
      [] fam = "LogNormalNormFit" ->
           << [theta |-> <<2000000, 800000>>, scale |-> 1860],
              [theta |-> <<8000000, 2000000>>, scale |-> 7760],
              [theta |-> <<500000, 200000>>, scale |-> 460] >>
      [] fam = "ExponentiatedWeibull" ->
           << [theta |-> <<2000000, 1500000, 1000000>>, scale |-> 1570],
              [theta |-> <<1000000, 1000000, 2000000>>, scale |-> 1230],
              [theta |-> <<3000000, 2000000, 800000>>, scale |-> 2300],
              [theta |-> <<800000, 900000, 3000000>>, scale |-> 1400] >>
      [] fam = "GeneralizedGamma" ->
           << [theta |-> <<2000000, 1500000, 500000>>, scale |-> 2800],
              [theta |-> <<1000000, 2000000, 200000>>, scale |-> 4160],
              [theta |-> <<3000000, 1000000, 1000000>>, scale |-> 2670],
              [theta |-> <<1500000, 1200000, 2000000>>, scale |-> 580],
              [theta |-> <<4400000, 1700000, 232600>>, scale |-> 9700] >>
      [] fam = "VonMises" ->
           << [theta |-> <<2000000, 500000>>, scale |-> 1000],
              [theta |-> <<5000000, -1000000>>, scale |-> 1000],
              [theta |-> <<800000, 2000000>>, scale |-> 1000] >>
      [] fam = "ScipyGumbel" ->
           << [theta |-> <<3000000, 1000000>>, scale |-> 3370],
              [theta |-> <<8000000, 2000000>>, scale |-> 8730],
              [theta |-> <<500000, 200000>>, scale |-> 570] >>
      [] fam = "ScipyGammaFloc" ->
           << [theta |-> <<2000000, 0, 1000000>>, scale |-> 1680],
              [theta |-> <<3500000, 0, 500000>>, scale |-> 1590] >>

(* ---- scale factors c = num/den and ln c (micro) *)
ScaleFactors == << <<1, 10>>, <<1, 4>>, <<1, 2>>, <<2, 1>>, <<4, 1>>, <<10, 1>> >>   \* configs select by index
LnQ(num, den) ==
    CASE num = 2  /\ den = 1  -> 693147
      [] num = 4  /\ den = 1  -> 1386294
      [] num = 10 /\ den = 1  -> 2302585
      [] num = 20 /\ den = 1  -> 2995732        \* FitLawsSmall.tla
      [] num = 1  /\ den = 2  -> -693147
      [] num = 1  /\ den = 4  -> -1386294
      [] num = 1  /\ den = 10 -> -2302585
      [] num = den            -> 0

(* the property's domain: data scale within metocean magnitudes [0.05, 20] before and   *)
(* after scaling (milli units: 50 .. 20000)                                             *)
InRange(scale, num, den) ==
    /\ 50 <= scale /\ scale <= 20000
    /\ 50 * den <= scale * num /\ scale * num <= 20000 * den

(* ---- the scale map: what multiplying the data by c does to the parameters            *)
MapOne(role, v, num, den) ==
    CASE role \in {"scale", "location"} -> (v * num) \div den
      [] role = "logscale"              -> v + LnQ(num, den)
      [] role = "recipscale"            -> (v * den) \div num
      [] OTHER                          -> v                       \* shapes unchanged
ScaleMap(fam, num, den, par) ==
    [i \in 1..Len(par) |-> MapOne(Roles(fam)[i], par[i], num, den)]

(* documented default start values (constructor defaults) *)
Defaults(fam) ==
    CASE fam = "Weibull"              -> <<1000000, 1000000, 0>>
      [] fam = "LogNormal"            -> <<0, 1000000>>
      [] fam = "Normal"               -> <<0, 1000000>>
      [] fam = "LogNormalNormFit"     -> <<0, 1000000>>
      [] fam = "ExponentiatedWeibull" -> <<1000000, 1000000, 1000000>>
      [] fam = "GeneralizedGamma"     -> <<1000000, 1000000, 1000000>>
      [] fam = "VonMises"             -> <<1000000, 0>>
      [] fam = "ScipyGumbel"          -> <<0, 1000000>>
      [] fam = "ScipyGammaFloc"       -> <<1000000, 0, 1000000>>

(* user start values derived from the generating ones (a deliberately bad guess)        *)
StartOne(role, v) ==
    CASE role \in {"scale", "recipscale"} -> (v * 3) \div 2
      [] role = "shape"                   -> (v * 4) \div 5
      [] role = "location"                -> v \div 2
      [] role = "logscale"                -> v + 200000
      [] role = "angle"                   -> v + 300000
UserStart(fam, theta) == [i \in 1..Len(theta) |-> StartOne(Roles(fam)[i], theta[i])]

(* a FAR user start: ordinary metocean magnitudes, but an order of magnitude away from the *)
(* data (as the start left behind by an earlier fit of the same object to other data)       *)
FarOne(role, v) ==
    CASE role = "scale"      -> v * 8
      [] role = "recipscale" -> v \div 8
      [] role = "logscale"   -> v + 2080000
      [] OTHER               -> v
FarStart(fam, theta) ==
    CASE fam = "ExponentiatedWeibull" -> <<theta[1] * 10, theta[2], theta[3] * 5>>
      [] fam = "GeneralizedGamma"     -> <<theta[1] \div 5, theta[2], theta[3] * 6>>
      [] OTHER -> [i \in 1..Len(theta) |-> FarOne(Roles(fam)[i], theta[i])]

(* label of a case: "regular", or one of the regions of the 3-parameter Weibull in      *)
(* which scipy's Nelder-Mead from the fixed default start (gamma = 0: initial simplex    *)
(* step 0.00025, absolute xtol = ftol = 1e-4) is measured not to reach the maximum.      *)
(* They lie inside the property's domain, so the clauses are judged there as everywhere  *)
(* else; the label only makes the keys of these reported findings recognisable:          *)
(*   lowshape: beta < 1.5 (the simplex collapses against the support wall gamma = min x) *)
(*   bigloc:   gamma or c*gamma > 1 (gamma never leaves the neighbourhood of 0)          *)
(*   smallloc: c*gamma < 0.02 (the absolute stopping tolerances are not small against    *)
(*             the location; gamma stays near 0)                                         *)
Label(fam, theta, num, den) ==
    IF fam = "GeneralizedGamma" THEN (IF theta[1] >= 4000000 THEN "highm" ELSE "regular")
    ELSE IF fam # "Weibull" THEN "regular"
    ELSE IF theta[2] < 1500000 THEN "lowshape"
    ELSE IF theta[3] > 1000000 \/ theta[3] * num > 1000000 * den THEN "bigloc"
    ELSE IF theta[3] * num < 20000 * den THEN "smallloc"
    ELSE "regular"

(* ScaleEquivariant is judged for every case.  (An earlier version exempted the generalised *)
(* gamma with n < 500 on the belief that its likelihood has no interior maximum there; an   *)
(* independent repro showed that the maximum exists and scipy's cap of 600 evaluations      *)
(* stops Nelder-Mead on the way - reported as a finding: class=highm and n=100.)            *)
Identifiable(fam, n) == TRUE

----------------------------------------------------------------------------
(* clause operators over measured quantities                                   *)

(* Tolerances.                                                                          *)
(* LL: 0.05 absolute = 50 milli (scipy's fmin stops at ftol = xtol = 1e-4; the          *)
(* likelihood is flat to second order at the maximum, so the loss against any other     *)
(* parameter vector is far below 0.05 for a converged run; an estimator that returns    *)
(* the start values, swaps shapes or confuses scale and log-scale loses tens to         *)
(* thousands of units) + 2 milli for the two roundings.                                 *)
LLTol == 52
GE(a, b) == a >= b - LLTol

(* equivariance: 2e-3 relative (optimiser tolerance: two Nelder-Mead runs from the same *)
(* default start on d and c*d stop within xtol=1e-4 of the same maximum; measured       *)
(* spread <= 1.5e-4 on regular classes) + 2 micro for rounding.  A log-scale parameter  *)
(* is compared absolutely (d mu = d scale / scale), a location relative to              *)
(* |location| + scale of the same fit.                                                  *)
RelOk(a, e) == Abs(a - e) <= 2 + (Abs(e) \div 500)
ScaleIdx(fam) == CHOOSE i \in 1..Len(Roles(fam)) : Roles(fam)[i] = "scale"
EquivOne(fam, i, a, e, epar) ==
    LET role == Roles(fam)[i] IN
    CASE role = "logscale" -> Abs(a - e) <= 2002
      [] role = "location" -> Abs(a - e) <= 2 + ((Abs(e) + Abs(epar[ScaleIdx(fam)])) \div 500)
      [] OTHER             -> RelOk(a, e)
Equivariant(fam, num, den, p1, p2) ==
    LET e == ScaleMap(fam, num, den, p1) IN
      \A i \in 1..Len(p1) : EquivOne(fam, i, p2[i], e[i], e)

(* Density transformation: LL(ScaleMap(p), c*d) = LL(p, d) - n ln c exactly.  Where the    *)
(* likelihood is a ridge (generalised gamma at n = 100: m, c, lambda_ nearly not          *)
(* identifiable) Nelder-Mead stops at its iteration limit with the likelihood converged    *)
(* (measured: 1e-3) but the parameters still 1-5 % apart, so "within optimiser tolerance"  *)
(* cannot be a parameter distance there; the two fits must then at least reach the same    *)
(* likelihood level.  n ln c in milli, computed without overflow; 3 milli for truncation.  *)
NLnC(n, num, den) ==
    LET q == LnQ(num, den) IN n * (q \div 1000) + ((n * (q % 1000)) \div 1000)
SameLevel(ll1, ll2, n, num, den) == Abs(ll2 - (ll1 - NLnC(n, num, den))) <= LLTol + 3
EquivariantFit(fam, num, den, n, p1, p2, ll1, ll2) ==
    Equivariant(fam, num, den, p1, p2) \/ SameLevel(ll1, ll2, n, num, den)

AdmissiblePar(fam, par) ==
    \A i \in 1..Len(par) : MustBePositive(Roles(fam)[i]) => par[i] > 0

(* fixed-parameter fits are judged by likelihood for the likelihood estimators; for the 3-parameter  *)
(* Weibull only with the location fixed (a free location from the default start is the recorded     *)
(* finding, see Label)                                                                              *)
FixedJudged(fam, kfix) == ~MomentEstimator(fam) /\ (fam = "Weibull" => kfix = 3)

(* moment estimator: mu_norm = mean, sigma_norm = std(ddof=1); 2 micro for rounding plus *)
(* 1e-9 relative for the summation order                                                *)
MomentsOk(par, mean, std) ==
    /\ Abs(par[1] - mean) <= 2 + (Abs(mean) \div 1000000000)
    /\ Abs(par[2] - std) <= 2 + (Abs(std) \div 1000000000)
=============================================================================
