--------------------------- MODULE FitLawsCases ---------------------------
(* C12 leg R, explicit deterministic cases: default-start MLE on data at the LOW END of the   *)
(* claimed range [0.05, 20] (fourth hunt round).  theta in micro units; fix = index of the     *)
(* parameter that is fixed at its generating value (0 = none); the data are drawn with the     *)
(* given numpy seed (not VERIF_SEED), fitted, and fitted again multiplied by 10.               *)
EXTENDS FitLawsOps, TLC, Json
VARIABLE c
LowEnd(fam, fix, theta, n, seed) == [kind |-> "lowend", fam |-> fam, fix |-> fix, theta |-> theta, n |-> n,
                                      seed |-> seed, num |-> 10, den |-> 1,
                                      thetac |-> ScaleMap(fam, 10, 1, theta), start |-> Defaults(fam)]
LowEndCases == {
    \* 3-parameter Weibull, location exactly 0, scale 0.06 .. 0.1, shape 1.5 .. 2.5
    LowEnd("Weibull", 0, <<60000, 2000000, 0>>, 100, 1),  LowEnd("Weibull", 0, <<60000, 2000000, 0>>, 1000, 1),
    LowEnd("Weibull", 0, <<80000, 2000000, 0>>, 300, 0),  LowEnd("Weibull", 0, <<80000, 2500000, 0>>, 5000, 6),
    LowEnd("Weibull", 0, <<100000, 1500000, 0>>, 1000, 0), LowEnd("Weibull", 0, <<100000, 2000000, 0>>, 5000, 6),
    \* generalised gamma with m fixed, lambda_ 10 .. 20 (sample mean 0.075 .. 0.29)
    LowEnd("GeneralizedGamma", 1, <<2000000, 1500000, 20000000>>, 1000, 0),
    LowEnd("GeneralizedGamma", 1, <<2000000, 1500000, 14285714>>, 1000, 1),
    LowEnd("GeneralizedGamma", 1, <<4000000, 800000, 20000000>>, 1000, 0),
    LowEnd("GeneralizedGamma", 1, <<3000000, 1000000, 20000000>>, 100, 0),
    LowEnd("GeneralizedGamma", 1, <<6000000, 2000000, 10000000>>, 1000, 0),
    LowEnd("GeneralizedGamma", 1, <<6000000, 2000000, 10000000>>, 5000, 2),
    \* exponentiated Weibull with delta fixed, scale 0.05 .. 0.1 (median 0.12 .. 0.34)
    LowEnd("ExponentiatedWeibull", 3, <<100000, 1000000, 20000000>>, 100, 1),
    LowEnd("ExponentiatedWeibull", 3, <<100000, 1000000, 20000000>>, 1000, 0),
    LowEnd("ExponentiatedWeibull", 3, <<100000, 1000000, 20000000>>, 5000, 4),
    LowEnd("ExponentiatedWeibull", 3, <<50000, 1000000, 10000000>>, 100, 0),
    LowEnd("ExponentiatedWeibull", 3, <<50000, 1200000, 10000000>>, 100, 4),
    LowEnd("ExponentiatedWeibull", 3, <<50000, 684000, 7790000>>, 100, 1) }
Init == c \in LowEndCases
Next == UNCHANGED c
Spec == Init /\ [][Next]_c
Emit == PrintT(<<"BEH", ToJson(c)>>)
=============================================================================
