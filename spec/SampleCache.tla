----------------------------- MODULE SampleCache -----------------------------
(* Life cycle of TransformedModel's lazily drawn one-million-point sample (DESIGN section 7   *)
(* item 6; C16 "cdf ... consistent with a fresh empirical cdf").                              *)
(*                                                                                          *)
(* ver     version of the parameters of the wrapped model (every fit gives a new one)        *)
(* cache   0 = empty, otherwise the version the cached sample was drawn from                  *)
(* used    version of the sample the last empirical_cdf was computed from                     *)
(* FitTransformed = TransformedModel.fit, FitBase = the wrapped GlobalHierarchicalModel is     *)
(* fitted directly (what every shipped example does), Read = empirical_cdf / .sample.          *)
(* Policy "tagged"   (code since D59) the cache remembers the state of the model it was drawn  *)
(*                   from and is redrawn when that differs;                                    *)
(*        "fitonly"  (D27 .. D59) only TransformedModel.fit empties the cache;                 *)
(*        "never"    (before D27) nothing empties it.                                          *)
EXTENDS Integers, Sequences, TLC, Json

CONSTANTS MaxOps, Policy, EmitBeh
VARIABLES ver, cache, used, hist
vars == <<ver, cache, used, hist>>

Init == ver = 1 /\ cache = 0 /\ used = 0 /\ hist = <<>>

FitTransformed == /\ Len(hist) < MaxOps
                  /\ ver' = ver + 1
                  /\ cache' = IF Policy = "never" THEN cache ELSE 0
                  /\ used' = 0
                  /\ hist' = Append(hist, "fitT")
FitBase == /\ Len(hist) < MaxOps
           /\ ver' = ver + 1 /\ UNCHANGED cache /\ used' = 0
           /\ hist' = Append(hist, "fitB")
Read == /\ Len(hist) < MaxOps
        /\ cache' = IF cache = 0 \/ (Policy = "tagged" /\ cache # ver) THEN ver ELSE cache
        /\ used' = cache'
        /\ UNCHANGED ver
        /\ hist' = Append(hist, "read")
Next == FitTransformed \/ FitBase \/ Read
Spec == Init /\ [][Next]_vars

(* an empirical cdf always describes the current parameters *)
CacheCurrent == used # 0 => used = ver
(* the cache is not redrawn needlessly: a second read without a fit in between reuses it *)
Emit == Len(hist) = MaxOps /\ EmitBeh /\ hist[MaxOps] = "read" => PrintT(<<"BEH", ToJson([hist |-> hist])>>)
=============================================================================
