----------------------------- MODULE Trace_C12 -----------------------------
(* Trace validation for C12: one record = one measured fit life cycle of the real code  *)
(*   start (p0) -> fit(d) (p1) -> fit(c*d from defaults) (p2) -> re-fit(d from p1) (p3)  *)
(* for a case enumerated by FitLaws.tla.  Log-likelihoods (milli) were computed by the   *)
(* driver as sum(log dist.pdf(data)) with the object's own pdf: ll0/ll1/ll3/llg on d at  *)
(* p0/p1/p3/generating theta, ll0c/ll2/llgc on c*d at the defaults/p2/ScaleMap(theta)    *)
(* (the latter vector was computed by TLC and travelled through the case).  -inf is      *)
(* clamped to -2*10^9.  Parameters micro; fin* = all returned parameters finite.         *)
(* Records of FitLawsCases.tla / FitLawsSmall.tla carry the same fields (no history: the  *)
(* bit patterns are empty, kfix = 0); for FitLawsSmall the fit of c*d (c = 20) starts at   *)
(* ScaleMap(start) instead of the defaults and ll0c is the likelihood of c*d there.        *)
EXTENDS FitLawsOps, Json, IOUtils, TLC

TraceLog == ndJsonDeserialize(IOEnv.TRACE_FILE)
VARIABLE l

NegInf == -2000000000
Sc(r) == Scalable(r.fam)

Clauses(r) ==
  IF r.exc # "" THEN << <<"UnexpectedException", FALSE>> >>
  ELSE IF ~(r.fin1 /\ r.fin2 /\ r.fin3) THEN << <<"Admissible", FALSE>> >>
  ELSE <<
    <<"StartAsSpecified", \A i \in 1..Len(r.p0) : Abs(r.p0[i] - r.start[i]) <= 1>>,
    \* one entry per transition, so that a finding about one start (the default start of the
    \* 3-parameter Weibull, see Label) does not blunt the clause for the other transitions
    <<"NoLikelihoodLoss.fit", GE(r.ll1, r.ll0)>>,
    <<"NoLikelihoodLoss.scaled", Sc(r) => GE(r.ll2, r.ll0c)>>,
    <<"NoLikelihoodLoss.refit", GE(r.ll3, r.ll1)>>,
    <<"AtLeastGenerating.fit", MomentEstimator(r.fam) \/ GE(r.ll1, r.llg)>>,
    <<"AtLeastGenerating.scaled", MomentEstimator(r.fam) \/ (Sc(r) => GE(r.ll2, r.llgc))>>,
    <<"AtLeastGenerating.refit", MomentEstimator(r.fam) \/ GE(r.ll3, r.llg)>>,
    \* the fit of ANOTHER instance of the family whose parameter kfix is fixed AWAY from the generating value
    \* (fixval = UserStart: scale x1.5, shape x0.8, location /2, log-scale +0.2): the constrained maximum.
    \* fx_ll0 / fx_ll = log-likelihood at its start / after the fit, fx_pert = the best log-likelihood with one
    \* free parameter moved by +-2 % (a maximiser within optimiser tolerance beats its neighbours).
    <<"NoLikelihoodLoss.fixed", FixedJudged(r.fam, r.kfix) => r.fx_fin /\ GE(r.fx_ll, r.fx_ll0)>>,
    <<"LocallyOptimal.fixed", FixedJudged(r.fam, r.kfix) => r.fx_fin /\ GE(r.fx_ll, r.fx_pert)>>,
    <<"MomentsMatch", MomentEstimator(r.fam) =>
                           (/\ MomentsOk(r.p1, r.mean1, r.std1)
                            /\ MomentsOk(r.p2, r.mean2, r.std2)
                            /\ MomentsOk(r.p3, r.mean1, r.std1))>>,
    <<"Admissible", /\ AdmissiblePar(r.fam, r.p1) /\ AdmissiblePar(r.fam, r.p2)
                    /\ AdmissiblePar(r.fam, r.p3)
                    /\ r.ll1 > NegInf /\ r.ll2 > NegInf /\ r.ll3 > NegInf>>,
    \* history: exact bit patterns (22-bit limbs) of fitted parameters.  bitsA = all fits of the first pass,
    \* bitsB = the same fits repeated in the same process in another seeded order of the cases; first fit only:
    \* bits10 = as the only fit of a fresh process, bits1A = first pass, bits1C / bits1H = after a fit of ANOTHER
    \* instance of the same family in which parameter kfix is fixed (same process / fresh process).
    \* A fit is a function of (instance, data): identical, bit for bit.
    <<"CaseOrderIndependent", r.bitsA = r.bitsB /\ r.bits10 = r.bits1A>>,
    <<"FixedFitDoesNotLeak", r.bits1A = r.bits1C /\ r.bits10 = r.bits1H>>,
    <<"ScaleEquivariant", Sc(r) /\ Identifiable(r.fam, r.n) => EquivariantFit(r.fam, r.num, r.den, r.n, r.p1, r.p2, r.ll1, r.ll2)>>
  >>

Verdict(r) == Failing(Clauses(r))

Init == l = 1
Next == /\ l <= Len(TraceLog)
        /\ LET r == TraceLog[l] v == Verdict(r) IN
             IF v = <<>> THEN TRUE ELSE PrintT(<<"VERDICT", r.id, v>>)
        /\ l' = l + 1
Spec == Init /\ [][Next]_l
Consumed == l = Len(TraceLog) + 1 => PrintT(<<"CONSUMED", l - 1>>)
=============================================================================
