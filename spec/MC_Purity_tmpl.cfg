SPECIFICATION Spec
CONSTANTS MaxLen = 4  SharedDep = FALSE  FitWritesTemplate = TRUE  CachingEval = FALSE  EmitBeh = FALSE
CHECK_DEADLOCK FALSE
INVARIANT FreshGraphsDisjoint
PROPERTY EvalIsPure
PROPERTY FitIsLocal
PROPERTY OtherModelUntouched
PROPERTY TemplateUntouched
PROPERTY Repeatable
