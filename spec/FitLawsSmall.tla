---------------------------- MODULE FitLawsSmall ----------------------------
(* C12 leg R: 3-parameter Weibull data of SMALL MAGNITUDE (the same data in another unit) fitted *)
(* from the GENERATING parameters as user start values, and from the near user start             *)
(* FitLawsOps!UserStart (scale x 1.5, shape x 0.8, location / 2).                                 *)
(*                                                                                                *)
(*   alpha in {0.05, 0.08, 0.1, 0.2}, gamma in {0.4 alpha, alpha}, beta in {1.5, 2, 3},           *)
(*   n in {200, 1000, 5000}; the fit of x starts at s, the fit of 20 x at ScaleMap(s) (c = 20     *)
(*   moves the data from the low end of the claimed range [0.05, 20] to magnitudes 1 .. 8).        *)
(*                                                                                                *)
(* With the start at (or near) the maximum the local optimiser has nothing to search for, so the  *)
(* clauses of the property are judged on the estimator itself: no loss of likelihood against the  *)
(* start and against the generating parameters, and scale equivariance - nothing in the           *)
(* estimation of a location/scale family may be an ABSOLUTE length (a margin, a step, a           *)
(* tolerance) that is small against data of magnitude 1 and not small against data of             *)
(* magnitude 0.05.                                                                                *)
(*                                                                                                *)
(* Not in the set: location exactly 0.  A start value gamma = 0 gives scipy's Nelder-Mead the     *)
(* absolute initial step 0.00025 for that coordinate (the recorded finding about the default      *)
(* start, see FitLawsOps!Label): measured on the unchanged library with gamma = 0: 2 of 540 data  *)
(* sets from the generating start and 6 of 162 from the near start (all beta = 3) end on           *)
(* different points for x and 20 x (both above the generating likelihood, ScaleEquivariant);       *)
(* with gamma > 0: 0 of 3 600 (generating start) and 0 of 2 592 (near start) fail any clause.       *)
(* The nominal data scale (the median gamma + alpha (ln 2)^(1/beta), milli units) of every case   *)
(* must satisfy FitLawsOps!InRange before and after scaling (alpha = 0.05 with gamma = 0 would     *)
(* not: median 0.039 .. 0.044).                                                                    *)
EXTENDS FitLawsOps, TLC, Json
CONSTANT Reps
VARIABLE c

SmallAlphas == {50000, 80000, 100000, 200000}
LocFifths == {2, 5}                                      \* gamma = alpha * k / 5
SmallBetas == {1500000, 2000000, 3000000}
SmallNs == {200, 1000, 5000}
SmallNum == 20
SmallDen == 1
(* (ln 2)^(1/beta) in milli *)
MedFactor(beta) == CASE beta = 1500000 -> 783 [] beta = 2000000 -> 833 [] beta = 3000000 -> 885
NominalScale(theta) == (theta[3] + (theta[1] * MedFactor(theta[2])) \div 1000) \div 1000

SmallThetas == {<<a, b, (a * k) \div 5>> : a \in SmallAlphas, b \in SmallBetas, k \in LocFifths}
StartOf(kind, theta) == IF kind = "generating" THEN theta ELSE UserStart("Weibull", theta)

SmallCase(theta, n, kind, rep) ==
    [kind |-> "smallscale", fam |-> "Weibull", theta |-> theta, n |-> n, rep |-> rep,
     num |-> SmallNum, den |-> SmallDen, scale |-> NominalScale(theta),
     thetac |-> ScaleMap("Weibull", SmallNum, SmallDen, theta),
     startkind |-> kind, start |-> StartOf(kind, theta),
     startc |-> ScaleMap("Weibull", SmallNum, SmallDen, StartOf(kind, theta))]
SmallCases ==
    {SmallCase(theta, n, kind, rep) : theta \in {t \in SmallThetas : InRange(NominalScale(t), SmallNum, SmallDen)},
                                      n \in SmallNs, kind \in {"generating", "user"}, rep \in Reps}

Init == c \in SmallCases
Next == UNCHANGED c
Spec == Init /\ [][Next]_c
Emit == PrintT(<<"BEH", ToJson(c)>>)
(* every generating vector of the grid is inside the claimed range (nothing filtered silently) *)
AllInRange == \A t \in SmallThetas : InRange(NominalScale(t), SmallNum, SmallDen)
=============================================================================
