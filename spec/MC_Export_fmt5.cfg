SPECIFICATION Spec
CONSTANTS Decimals = 5  NoClose = FALSE  AlwaysTxt = FALSE  RawHeader = FALSE
CHECK_DEADLOCK FALSE
INVARIANT ParsedIsRound6
