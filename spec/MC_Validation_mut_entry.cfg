SPECIFICATION Spec
CONSTANTS BaseSet = {1,3,7}  PairBaseSet = {}  HierarchyCheck = TRUE  Shortcut = "entryaccepted"
CHECK_DEADLOCK FALSE
INVARIANT RejectedNotComputed
