#!/bin/sh
# tools/refresh_many.sh <id>...   - tools/refresh_seed.py --notests for each id (checks: those recorded in its meta.json), PAR at a time
for id in "$@"; do echo $id; done | xargs -P ${PAR:-4} -I{} sh -c '/venv/bin/python tools/refresh_seed.py seeded/{} $(python3 tools/seed_checks.py {}) --notests 2>&1 | tail -1 | cut -c1-250'
