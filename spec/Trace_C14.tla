----------------------------- MODULE Trace_C14 -----------------------------
(* Trace validation for C14.                                                            *)
(*  kind = "proto": one record = one history of user fit calls on real                  *)
(*     DependenceFunction objects wired as graph r.graph in declaration order r.decl.   *)
(*     Each event carries what was observed: the internal _fit sequence of the call,    *)
(*     _may_fit and |_fitted_conditioners| of every function afterwards, and pdev[f] =  *)
(*     relative deviation (1e-9 units) of f's parameters from the least-squares         *)
(*     solution for f's stored data given the CURRENT parameters of its conditioners    *)
(*     (measured with numpy.linalg.lstsq).                                              *)
(*     The property is judged at the end of every round; whether the internals are a     *)
(*     behaviour of DepFitOps!FitCall is reported as conformance.                         *)
(*  kind = "fit": one record = one DependenceFunction.fit on a shape with bounds /      *)
(*     constraints / weights; objective values are relative to the objective of the     *)
(*     zero function, scaled by 1e9.                                                    *)
EXTENDS DepFitOps, Fix, Json, IOUtils, TLC

TraceLog == ndJsonDeserialize(IOEnv.TRACE_FILE)
VARIABLE l

(* curve_fit reproduces the linear least-squares solution to < 6e-5 relative (measured over  *)
(* 3 000 fits); parameters computed with stale conditioner values differ by O(0.1).        *)
PTol == 1000000      \* 1e-3 relative, units of 1e-9
Fresh(G, s, f) == s.pv[f].kind = "fit" /\ \A c \in DepSet(G, f) : s.pv[f].conds[c] = s.pv[c]

(* Property-level clauses per event.  The bookkeeping needs only the sequence of USER calls     *)
(* (which function was given which data version), not the internal protocol:                    *)
(*   RoundEndConsistent  once every function has been given data version d, every function      *)
(*                       carries the least-squares solution for its data given the CURRENT       *)
(*                       parameters of its conditioners ("fitted after all of those")            *)
(*   Untouched           a function whose fit was never requested and that no fitted function    *)
(*                       conditions keeps its start parameters                                   *)
(*   FitCallSucceeds     no user fit call raises, in any order                                   *)
EventClauses(G, s, e) ==
    <<
      <<"FittedAfterConditioners",
          (\A f \in FsOf(G) : s.xy[f] = e.d) => \A f \in FsOf(G) : e.pdev[f] <= PTol>>,
      <<"Untouched", \A f \in FsOf(G) : s.xy[f] = 0 => e.atstart[f]>>,
      \* a user fit call on a well-posed chain never fails, whatever the order ("strict" wirings are
      \* not finite while a conditioner still has its start parameters: a premature fit raises)
      <<"FitCallSucceeds", e.exc = "">>
    >>

(* Conformance of the observed internals with the protocol model DepFitOps (internal _fit      *)
(* cascade of each call, _may_fit, |_fitted_conditioners|, freshness after EVERY call) -         *)
(* reported as CONFORMANT and counted in the evidence, NOT a verdict: another protocol that      *)
(* meets the property is as good.                                                               *)
EventConformant(G, s, e, hasattrs) ==
    /\ s.log = e.internal
    /\ (hasattrs => \A f \in FsOf(G) : s.mayFit[f] = e.mayfit[f] /\ Cardinality(s.fc[f]) = e.nfc[f])
    /\ \A f \in FsOf(G) : s.pv[f].kind = "fit" => ((e.pdev[f] <= PTol) <=> Fresh(G, s, f))
    /\ ((\A f \in FsOf(G) : s.xy[f] = e.d) => Consistent(G, s, e.d))

RECURSIVE Replay(_, _, _, _, _)
Replay(G, dc, s, evs, i) ==
    IF i > Len(evs) THEN <<>>
    ELSE LET e == evs[i]
             s2 == FitCall(G, dc, "none", [s EXCEPT !.log = <<>>], e.f, e.d)
         IN Failing(EventClauses(G, s2, e)) \o Replay(G, dc, s2, evs, i + 1)

RECURSIVE Conformant(_, _, _, _, _, _)
Conformant(G, dc, s, evs, i, hasattrs) ==
    IF i > Len(evs) THEN TRUE
    ELSE LET e == evs[i]
             s2 == FitCall(G, dc, "none", [s EXCEPT !.log = <<>>], e.f, e.d)
         IN EventConformant(G, s2, e, hasattrs) /\ Conformant(G, dc, s2, evs, i + 1, hasattrs)

ProtoVerdict(r) ==
    LET G == GraphNamed(r.graph) IN
      IF ~TopoOk(G, r.decl) THEN <<"BadDeclarationOrder">>
      ELSE Replay(G, r.decl, InitState(G), r.events, 1)
ProtoConformant(r) ==
    LET G == GraphNamed(r.graph) IN TopoOk(G, r.decl) /\ Conformant(G, r.decl, InitState(G), r.events, 1, r.hasattrs)

(* tolerances (units of 1e-9 of the zero-function objective):                            *)
(*   curve_fit (TRF / LM, ftol=xtol=1e-8) and SLSQP (ftol=1e-6) stop within 1e-6 of the  *)
(*   local optimum relative to the objective scale; the stencil step is 1e-2 relative,   *)
(*   a wrong optimum or ignored bound moves the objective by orders of magnitude more.   *)
(*   In flat valleys (3 points, 3 parameters) the optimisers stop within 0.1 % of the     *)
(*   objective value itself, hence the additional relative term.                          *)
ObjTol == 2000
(* objectives are clamped at 2 x the zero-function objective; a fit that ends beyond that (e.g.  *)
(* still at start parameters with a residual of 1e5) is judged on the ratios rpert = objpert /    *)
(* objfit and rstart = objstart / objfit (units of 1e-9) instead                                  *)
ObjClamp == 2000000000
FitClauses(r) ==
    IF r.outcome \notin Range(r.expected) THEN << <<"Outcome", FALSE>> >>
    ELSE IF r.outcome # "ok" THEN <<>>
    ELSE <<
      <<"WithinBounds", r.inbounds>>,
      <<"ConstraintsHold", r.consmin >= -10>>,               \* >= -1e-8
      <<"NoWorseThanStart", r.startadm => IF r.objfit < ObjClamp
                                            THEN r.objfit <= r.objstart + ObjTol + (r.objstart \div 1000)
                                            ELSE r.rstart >= 999000000>>,
      <<"LocallyOptimal", IF r.objfit < ObjClamp
                          THEN r.objfit <= r.objpert + ObjTol + (r.objpert \div 1000)
                          ELSE r.rpert >= 999000000>>,
      <<"LinearIsLstsq", r.linear => r.lindev <= 200000>>,   \* 2e-4 relative: curve_fit (xtol 1e-8 on a
                                                             \* finite-difference Jacobian) reproduces lstsq to <= 6e-5
      <<"ParametersFinite", r.finite>>
    >>

Verdict(r) == IF r.kind = "proto" THEN ProtoVerdict(r) ELSE Failing(FitClauses(r))

Init == l = 1
Next == /\ l <= Len(TraceLog)
        /\ LET r == TraceLog[l] v == Verdict(r) IN
             /\ (IF v = <<>> THEN TRUE ELSE PrintT(<<"VERDICT", r.id, v>>))
             /\ (IF r.kind = "proto" /\ ProtoConformant(r) THEN PrintT(<<"CONFORMANT", r.id>>) ELSE TRUE)
        /\ l' = l + 1
Spec == Init /\ [][Next]_l
Consumed == l = Len(TraceLog) + 1 => PrintT(<<"CONSUMED", l - 1>>)
=============================================================================
