"""Growth beyond the listed properties (DESIGN section 7, items 2 and 4): documented sizing rules
(calculate_alpha, default Monte-Carlo sizes, marginal / conditional icdf sample sizes, axes table).
Called from the C16 driver."""
from fractions import Fraction

import numpy as np

from .common import Q, Machinery


def run_ext(ctx, vc):
    import matplotlib
    matplotlib.use("Agg")
    import matplotlib.pyplot as plt
    from virocon.plotting import _get_n_axes

    recs = []

    def add(**kw):
        kw["id"] = len(recs) + 1
        recs.append(kw)

    for sd, rp in ((1, 1), (3, 50), (6, 20), (1, 100), (3, 1), (0.5, 25)):
        a = vc.calculate_alpha(sd, rp)
        add(kind="alpha", lhs=Q(a * rp * 365.25 * 24, 1e8), rhs=Q(sd, 1e8))

    class Stub:
        n_dim = 2

        def __init__(self):
            self.ns = []

        def draw_sample(self, n, **kw):
            self.ns.append(int(n))
            rng = np.random.default_rng(1)
            return np.abs(rng.standard_normal((int(n), 2))) + 0.1

        def marginal_icdf(self, p, dim, **kw):
            return 2.0

    for a, b in ((1, 10), (1, 20), (3, 100), (7, 100), (1, 1000), (3, 1000), (1, 3), (2, 7)):
        for cls in (vc.DirectSamplingContour, vc.AndContour, vc.OrContour):
            st = Stub()
            try:
                cls(st, a / b, **({"deg_step": 30} if cls is vc.DirectSamplingContour else {"deg_step": 30, "allowed_error": 0.5}))
            except Exception:
                pass
            if st.ns:
                add(kind="defaultn", n=st.ns[0], a=a, b=b)
    # marginal_icdf (Monte-Carlo branch: conditional dimension)
    def lin(x, a=1.0, b=0.2):
        return a + b * x
    model = vc.GlobalHierarchicalModel([{"distribution": vc.WeibullDistribution(2, 1.5, 0.2)},
                                        {"distribution": vc.LogNormalDistribution(f_sigma=0.3), "conditional_on": 0,
                                         "parameters": {"mu": vc.DependenceFunction(lin)}}])
    seen = []
    orig = model.draw_sample

    def rec_draw(n, **kw):
        # the rule speaks of the number of draws the quantile rests on, not of one call: an implementation
        # that draws in blocks is judged on the total.  Requests up to 2e6 rows get an array of the
        # requested shape (cheap synthetic values), larger single requests are served by 1000 rows.
        seen.append(int(n))
        if int(n) <= 2000000:
            return np.abs(np.random.default_rng(len(seen)).standard_normal((int(n), 2))) + 0.1
        return orig(min(int(n), 1000), **kw)

    model.draw_sample = rec_draw
    for ps, (f, g) in (([Fraction(1, 2)], (1, 1)), ([Fraction(1, 100000), Fraction(1, 2)], (1, 1)), ([Fraction(999, 1000)], (1, 2)),
                       ([Fraction(1, 400000)], (1, 1)), ([Fraction(3, 10000000), Fraction(9, 10)], (1, 20)),
                       ([Fraction(999999, 1000000)], (3, 10))):
        seen.clear()
        model.marginal_icdf(np.array([float(p) for p in ps]), 1, precision_factor=f / g)
        small = min(min(ps), 1 - max(ps))
        if 100 * f * small.denominator >= 2**31 or g * small.numerator >= 2**31:
            raise Machinery("sizing case exceeds 32 bit")
        add(kind="marginaln", n=sum(seen), s=small.numerator, t=small.denominator, f=f, g=g)
    # conditional_icdf of the Monte-Carlo base class (TransformedModel)
    t = vc.TransformedModel(model, lambda x: x, lambda x: x, lambda x: np.ones(len(x)), precision_factor=1.0)
    cs = []

    def rec_cs(n, dim, given, **kw):
        cs.append(int(n))
        return np.linspace(0.1, 1.0, 100)

    t.conditional_sample = rec_cs
    for p, (f, g) in ((Fraction(1, 2), (1, 1)), (Fraction(1, 100000), (1, 1)), (Fraction(999, 1000), (1, 2)),
                      (Fraction(1, 10000000), (1, 1)), (Fraction(1, 3000000), (1, 5)), (Fraction(99999, 100000), (7, 10))):
        cs.clear()
        t.conditional_icdf(np.array([float(p)]), 1, np.array([[1.0]]), precision_factor=f / g)
        small = p if p < Fraction(1, 2) else 1 - p
        add(kind="conditionaln", n=cs[0], s=small.numerator, t=small.denominator, f=f, g=g)
    for n in range(1, 19):
        raised, rows, cols = False, 0, 0
        try:
            fig, axes = _get_n_axes(n)
            rows, cols = axes[0].get_subplotspec().get_gridspec().get_geometry()
            plt.close(fig)
        except NotImplementedError:
            raised = True
        except Exception:
            rows, cols = -1, -1
        add(kind="axes", nint=n, rows=int(rows), cols=int(cols), raised=raised)
    failing = ctx.validate("Trace_Sizing", "Trace_Sizing.cfg", recs)
    for r in recs:
        key = "sizing " + " ".join(f"{k}={v}" for k, v in r.items() if k != "id")
        ctx.case(key)
        for clause in failing.get(r["id"], []):
            ctx.violation("Sizing." + clause, key, "documented sizing rule", replay=None)
    ctx.notes["sizing_records_judged"] = len(recs)
