SPECIFICATION Spec
CONSTANTS L = 3  NP = 3  NQ = 2  StrictUpper = TRUE  NoBox = FALSE
CHECK_DEADLOCK FALSE
INVARIANT ExactlyTheCrossings
INVARIANT OnBoth
