------------------------------ MODULE Trace_C05 ------------------------------
(* Trace validation for C05.  Three kinds of records (field `kind`):                      *)
(*  "override"  one execution of  Fam(S).method(x, E)  against  Fam(Resolve(S,E)).method(x) *)
(*              for one TLC-generated case (ParamRouting!Emit)                              *)
(*  "intoverride" the same with integer-typed explicit values (valkind: python int, numpy int64 /  *)
(*              int32 scalar, integer array; ParamRoutingOps!IntOverrideCases); the instance is       *)
(*              constructed with the same integer objects                                             *)
(*  "laws"      one table of a real distribution object at one parameter vector of one      *)
(*              TLC-generated parameter class (DistLawsGen!Emit), with mpmath references    *)
(*  "summary"   last record: TLC asserts that the executed cases are exactly the products    *)
(*              OverrideCases and LawCases(tier) (coverage is asserted, not promised)        *)
EXTENDS ParamRoutingAttrOps, DistLawsOps, Json, IOUtils, TLC

TraceLog == ndJsonDeserialize(IOEnv.TRACE_FILE)
VARIABLE l

----------------------------------------------------------------------------
(* override records: fam, E (sequence of names), method, argkind, pass, outcome,           *)
(* outcomeinst, same (bitwise equal, NaN positions included), shapeok                       *)
OverrideClauses(r) ==
  <<
    <<"OutcomeAsSpecified",
        r.outcome = OverrideOutcome(r.fam, Range(r.E)) /\ r.outcomeinst = "ok">>,
    <<"OverrideEqualsInstance",
        r.outcome = "ok" /\ r.outcomeinst = "ok" => r.same /\ r.shapeok>>,
    (* history leg (ParamRoutingHist!InstancesShareNoState): with the instances of ALL cases    *)
    (* constructed up front, the case evaluated at two positions of two shuffled case orders    *)
    (* gives, both times, bit for bit the outcome and numbers of its isolated execution          *)
    <<"CaseOrderIndependent", r.hsame>>
  >>

(* "hist" records: one TLC-generated history new(f) / eval(i, n) of ParamRoutingHist replayed  *)
(* on real ScipyDistribution subclasses; ok = every evaluation with a keyword override equals   *)
(* the instance constructed with the resolved values (computed before the history started)      *)
HistClauses(r) == << <<"InstancesShareNoState", r.ok /\ r.exc = "" /\ r.nev >= 3>> >>

----------------------------------------------------------------------------
(* laws records.  Grid arrays (index i, increasing x): side, Ffin (F finite), Fq, Frq       *)
(* (measured / documented cdf, 1e-9), fsgn, fcls, frel, fabs (1e-12), rtxin, rtx (1e-12).  *)
(*   fcls = 0  measured and documented pdf finite: compared (frel / fabs = distance of the   *)
(*             measured value from the documented value; where that exceeds the tolerance    *)
(*             the distance from the RANGE of the documented pdf over x -+ 8 ulp, i.e. over   *)
(*             the arguments a double cannot tell apart - conditioning near a singular        *)
(*             boundary such as beta(b < 1) at loc + scale is not an error of the code)       *)
(*   fcls = 1  documented and measured density both +inf                                       *)
(*   fcls = 2  NaN, or non-finite where the documented value is finite (or vice versa)         *)
(* Grid points that ARE a boundary of the support (x = 0, gamma, loc, loc + scale when it is a  *)
(* double) are judged separately: edgeok = the measured pdf is the value of the documented      *)
(* formula there - its limit from inside: c / alpha-type constant when the exponent of x is 0   *)
(* (Weibull beta = 1, exponentiated Weibull beta * delta = 1, generalised gamma c * m = 1, gamma *)
(* a = 1), +inf when it is negative, 0 when it is positive - to 1e-8 relative                      *)
(* (where the exponent is 0 in double arithmetic but +-1e-17 for the doubles taken as exact      *)
(* numbers - 100 * 0.01 - the value for exponent 0 counts as well); edgesame = the                *)
(* same value, bit for bit, when the parameters are passed explicitly (scalars by keyword and    *)
(* positionally, arrays with x as a list).  ("x over the support incl. boundary"; an earlier      *)
(* version accepted 0 there as another version of the density - that hid an exponentiated        *)
(* Weibull pdf(0) that was always 0.)                                                            *)
(* rtx / rtp are the round-trip errors in excess of the representation error of the            *)
(* intermediate double (8 ulp of G(p) times the pdf, resp. 8 ulp of F(x) over the pdf).        *)
(* Probability arrays (index j, p from 1e-16 to 1 - 1e-12): ptail (p < 1e-6 or p > 1 - 1e-6), *)
(* pin (p within                                                                               *)
(* [1e-6, 1-1e-6]), gok (the documented cdf brackets p at G(p) -+ 1e-8 relative, up to       *)
(* IcdfPTolE15 in p, see DistLawsOps), rtp (1e-12).                                            *)
(* Derivative arrays: dlo, dmid, dhi, dslope (1e-6 / scale).                                 *)
NG(r) == Len(r.Fq)
One == 1000000000

LawsClauses(r) ==
  IF r.exc # "" THEN << <<"UnexpectedException", FALSE>> >>
  ELSE <<
    <<"FiniteValues", \A i \in 1..NG(r) : r.Ffin[i] /\ r.fcls[i] # 2>>,
    <<"Monotone", Monotone(r.Fq)>>,
    <<"Range01", Range01(r.Fq, r.side, One) /\ \A i \in 1..NG(r) : r.side[i] # 0 => r.Fexact[i]>>,
    <<"ReachesEnds", ReachesEnds(r.Fq, One, 2)>>,
    <<"PdfNonNeg", PdfNonNeg(r.fsgn)>>,
    <<"PdfZeroOutsideSupport", PdfZeroOutsideSupport(r.fsgn, r.side)>>,
    <<"CdfMatchesDocumentedFormula", \A i \in 1..NG(r) : Abs(r.Fq[i] - r.Frq[i]) <= CdfTolE9>>,
    <<"PdfMatchesDocumentedFormula",
        \A i \in 1..NG(r) : r.fcls[i] = 0 => (r.frel[i] <= RelTolE12 \/ r.fabs[i] <= AbsTolE12)>>,
    <<"IcdfMatchesDocumentedFormula",
        /\ r.gtolE12 = RelTolE12 /\ r.gptolE15 = IcdfPTolE15
        /\ \A j \in 1..Len(r.gok) : ~r.ptail[j] => r.gok[j]
        /\ r.gend \in {"ok", "na"}>>,
    <<"IcdfFarTailMatchesDocumentedFormula",
        /\ r.gpulps = IcdfPUlps
        /\ \A j \in 1..Len(r.gok) : r.ptail[j] => r.gok[j]
        /\ Cardinality({j \in 1..Len(r.gok) : r.ptail[j]}) >= 5>>,
    <<"RoundTripX", \A i \in 1..NG(r) : r.rtxin[i] /\ ~r.rtxtail[i] => r.rtx[i] <= RoundTripTolE12>>,
    (* rtxtail: grid points with 1e-30 <= F(x) < 1e-6 (x down to boundary + 1e-9 inter-quartile       *)
    (* ranges) or 1 - 1e-6 < F(x) <= 1 - 1e-9                                                          *)
    <<"RoundTripXFarTail", \A i \in 1..NG(r) : r.rtxin[i] /\ r.rtxtail[i] => r.rtx[i] <= RoundTripTolE12>>,
    <<"RoundTripP", \A j \in 1..Len(r.rtp) : r.pin[j] /\ ~r.ptail[j] => r.rtp[j] <= RoundTripTolE12>>,
    <<"RoundTripPFarTail", \A j \in 1..Len(r.rtp) : r.pin[j] /\ r.ptail[j] => r.rtp[j] <= RoundTripTolE12>>,
    <<"PdfAtSupportBoundary", r.edgeok /\ r.edgesame>>,
    <<"PdfIsDerivative", PdfIsDerivative(r.dlo, r.dmid, r.dhi, r.dslope, 2)>>,
    <<"ArrayLikeKindsAgree", r.kexc = "" /\ r.kshape /\ r.krel <= KindsTolE15>>,
    <<"NormFitMoments", r.fam = "NormFit" => r.momrel <= MomentTolE12>>,
    (* vacuity guard of the overflow classes (DistLawsOps!OverflowCases): the table reaches the region  *)
    (* where the power term of the documented density exceeds the double range; those points are judged *)
    (* by FiniteValues / PdfMatchesDocumentedFormula / Range01 like every other grid point               *)
    <<"UpperTailProbed", r.ext[1] = 8 => r.novf >= MinOverflowProbes>>
  >>

----------------------------------------------------------------------------
(* "attrhist" records: one history of ParamRoutingAttr (family, steps E / A<k> / F) replayed on  *)
(* one real object; ok = after every E the object's parameters, pdf, cdf, icdf and seeded         *)
(* draw_sample - all called without explicit parameters - are, bit for bit, those of a fresh       *)
(* instance constructed with the current parameter values                                          *)
NEvals(steps) == Cardinality({i \in 1..Len(steps) : steps[i] = "E"})
AttrHistClauses(r) ==
  << <<"EvalReadsCurrentAttributes", r.ok /\ r.exc = "" /\ r.nev = 4 * NEvals(r.steps)>> >>

(* "vmprobe" records: the von Mises distribution outside its support [mu - pi, mu + pi] (points *)
(* left and right of it, incl. 0 and a negative value where they lie outside) and at p = 0 / 1:   *)
(* cdf exactly 0 / 1 there, pdf exactly 0, icdf(0) = mu - pi and icdf(1) = mu + pi                 *)
VmProbeClauses(r) ==
  \* outside one period the documented (circular) density states no behaviour: scipy's periodic continuation of the cdf is
  \* a convention (DESIGN 10.3a), r.cdfok / r.pdfzero are carried as observations only; the ends of the period are judged
  << <<"IcdfEndpoints", r.icdfends>> >>

(* coverage *)
Idx(kind) == {i \in 1..Len(TraceLog) : TraceLog[i].kind = kind}
IntOverrideSeen == {<<TraceLog[i].fam, TraceLog[i].E, TraceLog[i].method, TraceLog[i].valkind,
                      TraceLog[i].pass>> : i \in Idx("intoverride")}
OverrideSeen == {<<TraceLog[i].fam, TraceLog[i].E, TraceLog[i].method, TraceLog[i].argkind,
                   TraceLog[i].pass>> : i \in Idx("override")}
LawsSeen == {<<TraceLog[i].fam, TraceLog[i].cl>> : i \in {k \in Idx("laws") : TraceLog[k].ext = <<0, 0>>}}
ExtSeen == {<<TraceLog[i].fam, TraceLog[i].cl, TraceLog[i].ext>> :
              i \in {k \in Idx("laws") : TraceLog[k].ext # <<0, 0>>}}
SummaryClauses(r) ==
  <<
    <<"OverrideCoverage", OverrideSeen = OverrideCases /\ Cardinality(Idx("override")) = Cardinality(OverrideCases)
                          /\ IntOverrideSeen = IntOverrideCases>>,
    <<"LawsCoverage", LawsSeen = LawCases(r.tier) /\ ExtSeen = ExtremeCases>>,
    <<"HistoriesReplayed", Cardinality(Idx("hist")) = r.nhist /\ r.nhist > 0
                           /\ {<<TraceLog[i].fam, TraceLog[i].steps>> : i \in Idx("attrhist")}
                                = AttrHistoryCases(4, r.attrfit)>>
  >>

Clauses(r) == CASE r.kind \in {"override", "intoverride"} -> OverrideClauses(r)
                [] r.kind = "laws" -> LawsClauses(r)
                [] r.kind = "hist" -> HistClauses(r)
                [] r.kind = "attrhist" -> AttrHistClauses(r)
                [] r.kind = "vmprobe" -> VmProbeClauses(r)
                [] r.kind = "summary" -> SummaryClauses(r)

Verdict(r) == Failing(Clauses(r))

Init == l = 1
Next == /\ l <= Len(TraceLog)
        /\ LET r == TraceLog[l] v == Verdict(r) IN
             IF v = <<>> THEN TRUE ELSE \A q \in 1..Len(v) : PrintT(<<"VERDICT", r.id, v[q]>>)
        /\ l' = l + 1
Spec == Init /\ [][Next]_l
Consumed == l = Len(TraceLog) + 1 => PrintT(<<"CONSUMED", l - 1>>)
=============================================================================
