SPECIFICATION Spec
CONSTANTS MaxLen = 5  SharedDep = FALSE  FitWritesTemplate = FALSE  CachingEval = FALSE  EmitBeh = FALSE
CHECK_DEADLOCK FALSE
INVARIANT FreshGraphsDisjoint
PROPERTY EvalIsPure
PROPERTY FitIsLocal
PROPERTY OtherModelUntouched
PROPERTY TemplateUntouched
PROPERTY Repeatable
