------------------------------- MODULE Purity -------------------------------
(* Histories of evaluate / contour / fit operations on two models built from separate    *)
(* calls of a predefined-model getter (C19).                                             *)
(*                                                                                      *)
(* New(m) allocates the object graph of model m: a template, a fitted-state object and    *)
(* a dependence function (fresh ids) - with SharedDep = TRUE the getter returns a          *)
(* module-level dependence function instead (the aliasing deviation).  Fit(m) bumps the    *)
(* version of m's fitted objects (and, with FitWritesTemplate, of the template).           *)
(* Eval(m, e) returns a result that is a function of the versions reachable from m and of  *)
(* e; with CachingEval it also bumps a version (a hidden cache that changes state).        *)
(* TLC explores all histories up to MaxLen over two models and two evaluation kinds.       *)
EXTENDS PurityOps, Integers, TLC, Json

CONSTANTS MaxLen, SharedDep, FitWritesTemplate, CachingEval, EmitBeh

Models == {"A", "B"}
Evals == {"e1", "e2"}
VARIABLES objs,      \* objs[m] = [tmpl, state, dep] object ids, or <<>> if m does not exist
          ver,       \* ver[o] = version of object o
          nextid, last, hist
vars == <<objs, ver, nextid, last, hist>>

SharedId == 0
Reach(m) == IF objs[m] = <<>> THEN {} ELSE {objs[m].tmpl, objs[m].state, objs[m].dep}
Result(m, e) == <<e, [o \in Reach(m) |-> ver[o]]>>

Init == /\ objs = [m \in Models |-> <<>>]
        /\ ver = [o \in {SharedId} |-> 0]
        /\ nextid = 1 /\ last = [m \in Models |-> [e \in Evals |-> <<>>]] /\ hist = <<>>

New(m) ==
    /\ Len(hist) < MaxLen /\ objs[m] = <<>>
    /\ LET d == IF SharedDep THEN SharedId ELSE nextid + 2 IN
         /\ objs' = [objs EXCEPT ![m] = [tmpl |-> nextid, state |-> nextid + 1, dep |-> d]]
         /\ ver' = [o \in (DOMAIN ver) \cup {nextid, nextid + 1, d} |-> IF o \in DOMAIN ver THEN ver[o] ELSE 0]
    /\ nextid' = nextid + 3
    /\ hist' = Append(hist, [op |-> "new", m |-> m, e |-> ""])
    /\ UNCHANGED last

Fit(m) ==
    /\ Len(hist) < MaxLen /\ objs[m] # <<>>
    /\ ver' = [o \in DOMAIN ver |->
                 IF o \in {objs[m].state, objs[m].dep} \/ (FitWritesTemplate /\ o = objs[m].tmpl)
                 THEN ver[o] + 1 ELSE ver[o]]
    /\ hist' = Append(hist, [op |-> "fit", m |-> m, e |-> ""])
    /\ UNCHANGED <<objs, nextid, last>>

Eval(m, e) ==
    /\ Len(hist) < MaxLen /\ objs[m] # <<>>
    /\ last' = [last EXCEPT ![m][e] = Result(m, e)]
    /\ ver' = IF CachingEval THEN [ver EXCEPT ![objs[m].state] = @ + 1] ELSE ver
    /\ hist' = Append(hist, [op |-> "eval", m |-> m, e |-> e])
    /\ UNCHANGED <<objs, nextid>>

Next == \E m \in Models : New(m) \/ Fit(m) \/ \E e \in Evals : Eval(m, e)
Spec == Init /\ [][Next]_vars

LastOp == hist'[Len(hist')]
EvalIsPure == [][(Len(hist') > Len(hist) /\ LastOp.op = "eval") => ver' = ver]_vars
FitIsLocal == [][(Len(hist') > Len(hist) /\ LastOp.op = "fit") =>
                    \A o \in DOMAIN ver : ver'[o] # ver[o] => o \in Reach(LastOp.m)]_vars
OtherModelUntouched ==
    [][(Len(hist') > Len(hist) /\ LastOp.op = "fit") =>
         \A m \in Models \ {LastOp.m} : \A e \in Evals : objs[m] # <<>> => Result(m, e)' = Result(m, e)]_vars
TemplateUntouched ==
    [][(Len(hist') > Len(hist) /\ LastOp.op = "fit") => ver'[objs[LastOp.m].tmpl] = ver[objs[LastOp.m].tmpl]]_vars
FreshGraphsDisjoint == \A m1, m2 \in Models : m1 # m2 => Reach(m1) \cap Reach(m2) = {}
(* a repeated evaluation with no fit of that model in between returns the identical result *)
Repeatable ==
    [][(Len(hist') > Len(hist) /\ LastOp.op = "eval" /\ last[LastOp.m][LastOp.e] # <<>>
         /\ \A o \in Reach(LastOp.m) : last[LastOp.m][LastOp.e][2][o] = ver[o])
        => last'[LastOp.m][LastOp.e] = last[LastOp.m][LastOp.e]]_vars

Emit == (EmitBeh /\ Len(hist) = MaxLen) => PrintT(<<"BEH", ToJson(hist)>>)
=============================================================================
