SPECIFICATION SpecSelKey
CONSTANTS SelN = 4  SelMaxV = 5
CHECK_DEADLOCK FALSE
