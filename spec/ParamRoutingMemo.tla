--------------------------- MODULE ParamRoutingMemo ---------------------------
(* Histories of a CHAINED dependence function (C08).  Level 1 is the dependence function  *)
(* of a distribution parameter, level k+1 the dependence function that level k takes as    *)
(* parameter (Depth levels below level 1).  Steps of a history:                             *)
(*   "E1", "E2"   evaluate the conditional distribution at conditioning value 1 / 2          *)
(*   "S<k>"       assign new coefficients to level k                                        *)
(*   "F"          fit the innermost level to data (new coefficients as well)                *)
(* The value at g is  <<version_1, g, version_2, g, ...>>: every level with its CURRENT     *)
(* coefficients, at the SAME g - after every step (CondEqualsTemplateAtValues along the     *)
(* history).  Memo = TRUE models a per-function memo of the last evaluation keyed on (g, own *)
(* coefficients) only, which must violate it.                                               *)
EXTENDS ParamRoutingMemoOps, TLC, Json

CONSTANTS Depth, MaxLen, Memo
VARIABLES h, k, ver, memo, okv

vars == <<h, k, ver, memo, okv>>
Levels == 1..(Depth + 1)
Alphabet == MemoAlphabet(Depth)
Histories == MemoHistories(Depth, MaxLen)
HistoryNames(s) == MemoHistoryNames(s)

NoMemo == <<0, 0, <<>> >>        \* <<g, own version, value>>; g = 0: empty

(* documented value at g *)
RECURSIVE Want(_, _)
Want(lev, g) == <<ver[lev], g>> \o (IF lev = Depth + 1 THEN <<>> ELSE Want(lev + 1, g))

(* what the code returns, and the memo it leaves behind *)
Hit(lev, g) == Memo /\ memo[lev][1] = g /\ memo[lev][2] = ver[lev]
RECURSIVE Got(_, _)
Got(lev, g) == IF Hit(lev, g) THEN memo[lev][3]
               ELSE <<ver[lev], g>> \o (IF lev = Depth + 1 THEN <<>> ELSE Got(lev + 1, g))
Reached(lev, g) == \A m \in 1..(lev - 1) : ~Hit(m, g)      \* level lev is evaluated at all
NewMemo(g) == [lev \in Levels |->
                 IF Memo /\ Reached(lev, g) /\ ~Hit(lev, g) THEN <<g, ver[lev], Got(lev, g)>> ELSE memo[lev]]

Init == /\ h \in Histories /\ k = 1 /\ okv = TRUE
        /\ ver = [lev \in Levels |-> 1]
        /\ memo = [lev \in Levels |-> NoMemo]

Step ==
    /\ k <= Len(h)
    /\ LET st == h[k] IN
         IF st[1] = "E"
         THEN /\ okv' = (okv /\ Got(1, st[2]) = Want(1, st[2]))
              /\ memo' = NewMemo(st[2])
              /\ ver' = ver
         ELSE /\ ver' = [ver EXCEPT ![st[2]] = @ + 1]
              /\ UNCHANGED <<memo, okv>>
    /\ k' = k + 1
    /\ h' = h
Spec == Init /\ [][Step]_vars

CondEqualsTemplateAlongHistory == okv
Emit == k = 1 => PrintT(<<"BEH", ToJson([depth |-> Depth, steps |-> HistoryNames(h)])>>)
=============================================================================
