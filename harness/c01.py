"""C01 - IFORM/ISORM contours are the inverse-Rosenblatt image of the beta-sphere.

M: TLC explores spec/Rosenblatt.tla in mode "icdf" (IcdfStep): every admissible structure
   for n = 2..4, every shape-class assignment, every lattice point; mutation configs
   (wrong column; inadmissible structure) must violate InverseRosenblatt / ReadsOnlyComputed.
R: TLC enumerates the configurations (n, cond, shape classes); the driver concretises each
   with shipped families and admissible random parameters (harness/models.py).
V: IFORMContour and ISORMContour are computed on the real model, every point is mapped back in
   the driver's own loop with model.distributions[i].cdf and the declared structure, and
   spec/Trace_C01.tla judges RadiusIsBeta, BetaIsRef, Count, DirectionsDistinct,
   AnglesEquallySpaced, MaxIsMarginalQuantile and ProbeColumn.
H: histories (spec/RosenblattHist.tla: contour -> Modify(i) of any non-empty set of dimensions -> the same
   request again; TLC checks InverseRosenblattNow, the deviation "stalememo" must violate it, and enumerates the
   histories).  The driver performs each on ONE real model object with direct writes to inner objects
   (dep.parameters[k] = v | dep.parameters = {...} | dep.fit(x, y) | dist.<parameter> = v) and judges the
   radius of the SECOND contour twice: through the object's own cdfs with array-valued given, and through
   a freshly constructed model with the current parameters (no call has ever been made on it).
"""
import copy
import math
import warnings
from statistics import NormalDist

import numpy as np

from .common import Q, Qc, Machinery, import_virocon
from . import models as M

LEVEL = "model_checking"
ND = NormalDist()
ALPHAS = [0.5, 0.1, 1e-2, 1e-4, 1e-6, 1e-8]
NPTS2 = [3, 7, 30, 180]
NPTSN = [3, 7, 30, 60]
PROBE_FAMS = ["weibull", "lognormal", "normal", "expweibull", "gengamma", "vonmises"]
BIG = 2_000_000_000


# ---- independent references ---------------------------------------------------------------

def chi2_sf(x, n):
    """closed-form survival function of chi-square with n = 2, 3, 4 degrees of freedom"""
    if n == 2:
        return math.exp(-x / 2)
    if n == 3:
        return math.erfc(math.sqrt(x / 2)) + math.sqrt(2 * x / math.pi) * math.exp(-x / 2)
    if n == 4:
        return math.exp(-x / 2) * (1 + x / 2)
    raise Machinery("chi2 reference only for n = 2, 3, 4")


def chi2_quantile_upper(alpha, n):
    """x with sf(x) = alpha, by bisection"""
    lo, hi = 0.0, 200.0
    for _ in range(200):
        mid = 0.5 * (lo + hi)
        if chi2_sf(mid, n) > alpha:
            lo = mid
        else:
            hi = mid
    return 0.5 * (lo + hi)


def beta_ref(method, alpha, n_dim):
    """reference beta from the exact value of alpha (a Python float); no 1 - alpha is formed"""
    alpha = float(alpha)
    if method == "iform":
        return -ND.inv_cdf(alpha)
    return math.sqrt(chi2_quantile_upper(alpha, n_dim))


def phi_inv(p):
    p = float(p)
    if not p > 0.0:
        return -math.inf
    if not p < 1.0:
        return math.inf
    return ND.inv_cdf(p)


# ---- one case on the real code -------------------------------------------------------------

def case_key(c, method):
    if method == "reject":
        return f"constructor conditional_on={c['cond']}"
    if c.get("how") in ("refit", "seastate-item", "seastate-depfit"):
        return f"{method} named=seastate-weibull-lognormal alpha={c['alpha']} n_points={c['n_points']} seed={c['seed']}"
    return (f"{method} n_dim={c['n_dim']} cond={c['cond']} families={','.join(c['families'])} "
            f"shapes={c['sh']} alpha={c['alpha']}" + (f" alpha_type={c['alpha_type']}" if c.get("alpha_type") else "")
            + f" n_points={c['n_points']} seed={c['seed']}"
            + (f" modified={c['mods']} writes={','.join(c['writes'])}" if c.get("how") == "inner-write" else ""))


def map_back(model, cond, x):
    """u'_i = Phi^-1(F_i(x_i | x_cond[i])) with the model's own distributions, declared structure"""
    u = np.empty(x.shape)
    for i in range(x.shape[1]):
        d = model.distributions[i]
        p = d.cdf(x[:, i]) if cond[i] is None else d.cdf(x[:, i], given=x[:, cond[i]])
        p = np.atleast_1d(np.asarray(p, dtype=float))
        for k in range(x.shape[0]):
            u[k, i] = phi_inv(p[k])
    return u


def contour_record(vc, model, c, method, fresh=None):
    """fresh: a model constructed from the CURRENT parameters of `model` on which nothing has been evaluated
    yet; the contour of `model` is then mapped back a second time through the cdfs of that object"""
    cls = vc.IFORMContour if method == "iform" else vc.ISORMContour
    n_dim, npnt, alpha = c["n_dim"], c["n_points"], c["alpha"]
    rec = dict(kind="contour", method=method, ndim=n_dim, npoints=npnt, finite=True, shapeok=True,
               beta=0, betaref=Q(beta_ref(method, alpha, n_dim), 1e7), r=[], dirs=[], ang=[], argmax=1,
               umax=0, exc="", fresh=fresh is not None, rfresh=[])
    with warnings.catch_warnings():
        warnings.simplefilter("ignore")
        try:
            # alpha as the caller's number type: Python float (default), numpy float64 or float32 (the case's
            # alpha is then the exact value of that float32, so the reference is for the number passed)
            a_in = {"float32": np.float32, "float64": np.float64}.get(c.get("alpha_type"), float)(alpha)
            cont = cls(model, a_in, npnt)
        except Exception as e:  # noqa
            rec.update(finite=False, exc=f"{type(e).__name__}: {e}"[:200])
            return rec, None
        x = np.asarray(cont.coordinates, dtype=float)
        rec["shapeok"] = tuple(x.shape) == (npnt, n_dim)
        if x.ndim != 2 or not np.all(np.isfinite(x)) or not np.isfinite(cont.beta):
            rec["finite"] = False
            return rec, cont
        u = map_back(model, c["cond"], x)
        uf = map_back(fresh, c["cond"], x) if fresh is not None else None
    rec["beta"] = Q(cont.beta, 1e7)
    r = np.sqrt(np.sum(u * u, axis=1))
    rec["r"] = [Qc(v, 1e7, -BIG, BIG) for v in r]
    if uf is not None:
        rec["rfresh"] = [Qc(v, 1e7, -BIG, BIG) for v in np.sqrt(np.sum(uf * uf, axis=1))]
    dirs = []
    for k in range(len(r)):
        if math.isfinite(r[k]) and r[k] > 1e-12:
            dirs.append([Q(u[k, i] / r[k], 1e4) for i in range(n_dim)])
        else:
            dirs.append([0] * n_dim)
    rec["dirs"] = dirs
    if n_dim == 2:
        rec["ang"] = [int(round((math.degrees(math.atan2(u[k, 1], u[k, 0])) % 360.0) * 1e6)) % 360_000_000
                      if math.isfinite(r[k]) else 0 for k in range(len(r))]
        if method == "iform":
            am = int(np.argmax(x[:, 0]))
            rec["argmax"] = am + 1
            rec["umax"] = Qc(u[am, 0], 1e7, -BIG, BIG)
    return rec, cont


# (family, the single varying parameter) -> how the quantile moves with that parameter
PROBES = {("weibull", "gamma"): "add", ("normal", "mu"): "add", ("vonmises", "mu"): "add",
          ("lognormal", "mu"): "logadd", ("expweibull", "alpha"): "logscale",
          ("gengamma", "lambda_"): "neglogscale", ("weibull", "alpha"): "centred:gamma",
          ("normal", "sigma"): "centred:mu", ("lognormal", "sigma"): "logcentred:mu"}


def _const_param(d, name):
    if name in d["fixed"]:
        return float(d["fixed"][name])
    kind, co = d["deps"][name]
    return float(co[0]) if kind == "const" else None


def probe_record(model, c, cont, method):
    """For every conditional dimension with exactly one varying parameter of a known
    location/scale type: the measured shift of each contour point against the quantile at
    given = 0, and the shift each candidate conditioning column would induce (computed from
    the harness' own copy of the dependence function)."""
    desc = model._verif
    entries, identifying = [], 0
    x = np.asarray(cont.coordinates, dtype=float)
    sp = np.asarray(cont.sphere_points, dtype=float)
    for i in range(1, c["n_dim"]):
        if c["cond"][i] is None:
            continue
        d = desc["dims"][i]
        fam = d["family"]
        varying = [p for p, (k, _) in d["deps"].items() if k != "const"]
        if len(varying) != 1 or (fam, varying[0]) not in PROBES:
            continue
        par = varying[0]
        mode = PROBES[(fam, par)]
        centre = None
        if ":" in mode:
            mode, cpar = mode.split(":")
            centre = _const_param(d, cpar)
            if centre is None:
                continue
        kind, co = d["deps"][par]
        f = M.FUNCS[kind]

        def dep(v):
            val = float(f(v, *co))
            if mode in ("add", "logadd"):
                return val
            return -math.log(val) if mode == "neglogscale" else math.log(val)

        def shift_of(xi, q0):
            if mode == "add":
                return xi - q0
            if mode in ("logadd", "logscale", "neglogscale"):
                return math.log(xi) - math.log(q0) if xi > 0 and q0 > 0 else None
            if mode == "centred":
                a, b = xi - centre, q0 - centre
            else:
                if not (xi > 0 and q0 > 0):
                    return None
                a, b = math.log(xi) - centre, math.log(q0) - centre
            if abs(b) < 0.05 or a * b <= 0:        # next to the median the ratio is ill-conditioned
                return None
            return math.log(a / b)
        for k in range(min(x.shape[0], 30)):
            p = ND.cdf(float(sp[k, i]))
            if not (0.0 < p < 1.0):
                continue
            with warnings.catch_warnings():
                warnings.simplefilter("ignore")
                q0 = float(np.asarray(model.distributions[i].icdf(p, given=0.0)).reshape(-1)[0])
            shift = shift_of(float(x[k, i]), q0)
            if shift is None:
                continue
            cands = [dep(float(x[k, cc])) - dep(0.0) for cc in range(i)]
            if not all(math.isfinite(v) and abs(v) < 2e4 for v in cands + [shift]):
                continue
            e = dict(shift=Q(shift, 1e5), cands=[Q(v, 1e5) for v in cands], decl=c["cond"][i] + 1, dim=i,
                     point=k, par=f"{fam}.{par}")
            if any(abs(e["cands"][cc] - e["cands"][e["decl"] - 1]) > 100 for cc in range(i) if cc != e["decl"] - 1):
                identifying += 1
            entries.append(e)
    if not entries:
        return None, 0
    return dict(kind="probe", method=method, entries=entries), identifying


def reject_record(c):
    """an inadmissible structure (TLC: Admissible = FALSE) must be rejected by the constructor"""
    vc = import_virocon()
    rng = np.random.default_rng(c["seed"])
    adm = [k if (k is None or k < i) else 0 for i, k in enumerate(c["cond"])]
    desc = M.describe(rng, c["n_dim"], adm, c["families"], c["sh"])
    desc["cond"] = list(c["cond"])
    try:
        with warnings.catch_warnings():
            warnings.simplefilter("ignore")
            M.from_description(vc, desc)
        accepted, exc = True, ""
    except ValueError as e:
        accepted, exc = False, "ValueError"
    except Exception as e:  # noqa
        accepted, exc = False, type(e).__name__
    return dict(kind="reject", accepted=accepted, exc=exc, cond=[-1 if k is None else k for k in c["cond"]])


def _contours(vc, model, c, desc, tag="", fresh=None):
    out = []
    for method in c.get("methods", ("iform", "isorm")):
        rec, cont = contour_record(vc, model, c, method, fresh=fresh)
        out.append((rec, method + tag, {"nontrivial": M.nontrivial_dependence(desc) if desc else True,
                                        "colsens": bool(desc) and M.column_sensitive(desc)}, cont))
    return out


WRITE_STYLES = ("item", "dict", "depfit")


def marginal_edit(fam, params):
    """the parameter values an unconditional dimension gets in a history (admissible, quantiles move)"""
    p = dict(params)
    if fam in ("weibull", "expweibull"):
        p["alpha"] = p["alpha"] * 1.6
    elif fam in ("lognormal", "normal"):
        p["mu"] = p["mu"] + 0.47
    elif fam == "gengamma":
        p["lambda_"] = p["lambda_"] / 1.6
    elif fam == "lognormfit":
        p["mu_norm"], p["sigma_norm"] = p["mu_norm"] * 1.6, p["sigma_norm"] * 1.6
    elif fam == "vonmises":
        p["kappa"] = p["kappa"] * 1.6
    return p


def inner_write(model, now, i, style):
    """Modify(i) of RosenblattHist.tla on the real objects: dimension i of `model` is changed by writing to an
    INNER object directly (never through model.fit); `now` (the harness' own description) is updated with the same
    numbers, so that a fresh model with the current parameters can be built.  Returns the style performed.
      unconditional dimension: dist.<parameter> = v
      conditional dimension, every dependence function, offset coefficient x 1.25 (admissible by construction):
        "item"   dep.parameters[name] = v          (the dict the function reads is written in place)
        "dict"   dep.parameters = {...}            (a new dict is assigned)
        "depfit" dep.fit(x, y) on the DependenceFunction itself, y exactly on the target curve; the
                 parameters the fit left in dep.parameters ARE the current state and are read back"""
    d = now["dims"][i]
    obj = model.distributions[i]
    if now["cond"][i] is None:
        new = marginal_edit(d["family"], d["params"])
        for p, v in new.items():
            if v != d["params"][p]:
                setattr(obj, p, v)
        d["params"] = new
        return "attribute"
    done = style
    for p, (kind, co) in list(d["deps"].items()):
        dep = obj.conditional_parameters[p]
        target = [float(co[0]) * 1.25] + [float(v) for v in co[1:]]
        k0 = next(iter(dep.parameters))
        if style == "item":
            dep.parameters[k0] = target[0]
        elif style == "dict":
            pars = dict(dep.parameters)
            pars[k0] = target[0]
            dep.parameters = pars
        else:
            xs = np.linspace(0.25, 6.0, 24)
            dep.fit(xs, M.FUNCS[kind](xs, *target))
            got = [float(v) for v in dep.parameters.values()]
            if len(got) == len(target) and all(abs(g - t) <= 1e-5 * (1 + abs(t)) for g, t in zip(got, target)):
                target = got
            else:
                # the least-squares fit stopped somewhere else (C14's business, possibly inadmissible here):
                # the history goes on with the target written over the fit result - still a direct write
                dep.parameters = dict(zip(dep.parameters.keys(), target))
                done = "depfit+dict"
        d["deps"][p] = [kind, target]
    return done


def _moved(model, c, r1, c1):
    """non-trivial history: the contour of the old parameters is off the beta-sphere of the new ones"""
    if c1 is None or not r1["finite"]:
        return False
    with warnings.catch_warnings():
        warnings.simplefilter("ignore")
        u = map_back(model, c["cond"], np.asarray(c1.coordinates, dtype=float))
    rr = np.sqrt(np.sum(u * u, axis=1))
    return bool(np.max(np.abs(rr - r1["betaref"] / 1e7)) > 1e-3)


def same_column(c):
    """a modified conditional dimension none of whose ancestors was modified: the second contour evaluates it
    at the conditioning values of the first"""
    for i in c["mods"]:
        k = c["cond"][i]
        if k is None:
            continue
        while k is not None and k not in c["mods"]:
            k = c["cond"][k]
        if k is None:
            return True
    return False


def _seastate_with(vc, mu_par, sigma_par):
    m = M.seastate_model(vc)
    cp = m.distributions[1].conditional_parameters
    cp["mu"].parameters = dict(zip(cp["mu"].parameters.keys(), mu_par))
    cp["sigma"].parameters = dict(zip(cp["sigma"].parameters.keys(), sigma_par))
    return m


def history_case(vc, c):
    """contour -> change the SAME model object (assign parameters | re-fit | write to inner objects) -> the same
    contour request again; the second contour is judged against the CURRENT model"""
    fresh = None
    how = c["how"]
    if how in ("refit", "seastate-item", "seastate-depfit"):
        truth = M.seastate_model(vc)
        data_a = truth.draw_sample(5000, random_state=c["seed"])
        data_b = truth.draw_sample(5000, random_state=c["seed"] + 1) * np.array([0.5, 1.6])
        model = M.seastate_model(vc)
        if how == "refit":
            with warnings.catch_warnings():
                warnings.simplefilter("ignore")
                model.fit(data_a)
        desc = None
    else:
        desc = M.describe(np.random.default_rng(c["seed"]), c["n_dim"], c["cond"], c["families"], c["sh"])
        model = M.from_description(vc, desc)
    first = _contours(vc, model, c, desc, "-history-first")
    with warnings.catch_warnings():
        warnings.simplefilter("ignore")
        if how == "refit":
            model.fit(data_b)
        elif how in ("seastate-item", "seastate-depfit"):
            # the first variable keeps its marginal; only the dependence function of mu is touched
            cp = model.distributions[1].conditional_parameters
            mu_new = [0.6, 1.489, 0.1901]
            if how == "seastate-item":
                cp["mu"].parameters["a"] = mu_new[0]
            else:
                xs = np.linspace(0.5, 8.0, 16)
                cp["mu"].fit(xs, M._ss_p3(xs, *mu_new))
                mu_new = [float(v) for v in cp["mu"].parameters.values()]
            fresh = _seastate_with(vc, mu_new, [float(v) for v in cp["sigma"].parameters.values()])
        elif how == "inner-write":
            now = copy.deepcopy(desc)
            for i, style in zip(c["mods"], c["writes"]):
                inner_write(model, now, i, style)
            fresh = M.from_description(vc, now)
        else:
            M.change_parameters(model)
            fresh = M.from_description(vc, M.change_description(desc))
    second = _contours(vc, model, c, desc, "-history-after-" + how, fresh=fresh)
    out = []
    samecol = how.startswith("seastate") or (how == "inner-write" and same_column(c))
    for (r1, m1, i1, c1), (r2, m2, i2, c2) in zip(first, second):
        out.append((r1, m1, i1))
        out.append((r2, m2, dict(i2, nontrivial=_moved(model, c, r1, c1), history=True, samecol=samecol)))
    return out


def run_case(c):
    """-> list of (record without id, method, info) for one case (module level: used with pmap)"""
    vc = import_virocon()
    if c.get("kind") == "reject":
        return [(reject_record(c), "reject", {"nontrivial": True})]
    if c.get("kind") == "history":
        return history_case(vc, c)
    desc = M.describe(np.random.default_rng(c["seed"]), c["n_dim"], c["cond"], c["families"], c["sh"],
                      spec=M.SPECS.get(c.get("spec")))
    model = M.from_description(vc, desc)
    out = []
    for rec, method, info, cont in _contours(vc, model, c, desc):
        if c.get("spec"):
            method = method + "-" + c["spec"]
        out.append((rec, method, info))
        if cont is not None and rec["finite"]:
            pr, ident = probe_record(model, c, cont, method.split("-")[0])
            if pr is not None:
                out.append((pr, method + "-probe", {"nontrivial": ident > 0, "identifying": ident}))
    return out


# ---- case selection ------------------------------------------------------------------------

def make_cases(ctx, cfgs, hists=()):
    rng = np.random.default_rng(ctx.seed + 1)
    by_n = {n: [c for c in cfgs if c["n_dim"] == n] for n in (2, 3, 4)}
    cases = []
    fam_i = ctx.seed

    def add(cfg, alpha, npnt, fams=None):
        nonlocal fam_i
        if fams is None:
            fams = []
            for _ in range(cfg["n_dim"]):
                fams.append(M.FAMILIES[fam_i % len(M.FAMILIES)])
                fam_i += int(rng.integers(1, 4))
        cases.append(dict(n_dim=cfg["n_dim"], cond=cfg["cond"], sh=cfg["sh"], families=fams, alpha=float(alpha),
                          n_points=int(npnt), seed=int(rng.integers(1, 2**31 - 1))))

    def alpha_of(j):
        if ctx.quick or j % 2 == 0:
            return ALPHAS[(j // (1 if ctx.quick else 2)) % len(ALPHAS)]
        return float(10 ** rng.uniform(-8, math.log10(0.49)))      # thorough: also off-grid alphas

    j = ctx.seed
    # 2-D: every configuration x every alpha (thorough: x 12 repetitions)
    for rep in range(ctx.pick(1, 12)):
        for cfg in by_n[2]:
            for a in range(len(ALPHAS)):
                j += 1
                add(cfg, alpha_of(j) if rep else ALPHAS[a], NPTS2[j % 4])
    # 3-D: quick every 6th configuration (rotated by the seed), thorough all, twice
    for rep in range(ctx.pick(1, 4)):
        # a seeded random subset (a stride would alias with the shape-class enumeration order)
        pick3 = sorted(int(p) for p in rng.choice(len(by_n[3]), size=ctx.pick(96, len(by_n[3])), replace=False))
        for idx in pick3:
            j += 1
            add(by_n[3][idx], alpha_of(j), NPTSN[j % 4])
    # 4-D: quick 2 shape assignments per structure, thorough 24 per structure
    per_struct = ctx.pick(3, 96)
    structs = {}
    for cfg in by_n[4]:
        structs.setdefault(tuple(-1 if k is None else k for k in cfg["cond"]), []).append(cfg)
    for key, lst in structs.items():
        pick = rng.choice(len(lst), size=min(per_struct, len(lst)), replace=False)
        for idx in sorted(int(p) for p in pick):
            j += 1
            add(lst[idx], alpha_of(j), NPTSN[j % 4])
    # probes: every 3-D / 4-D structure with a conditional dimension, all conditional dims with a
    # pure location/scale dependence (shape class 2), probe-able families
    for n in (3, 4):
        seen = set()
        for cfg in by_n[n]:
            key = tuple(-1 if k is None else k for k in cfg["cond"])
            if key in seen or all(k is None for k in cfg["cond"]):
                continue
            if all(s == 2 for s in cfg["sh"]):
                seen.add(key)
                for rep in range(ctx.pick(1, 3)):
                    j += 1
                    fams = [PROBE_FAMS[(j + 2 * i + rep) % 5] for i in range(n)]     # non-circular parents
                    add(cfg, [1e-2, 0.1, 1e-4][rep], [30, 7, 60][rep], fams)
                    # the same structure with the scale parameter (normal / log-normal sigma) varying
                    fams3 = [["normal", "lognormal"][(j + i) % 2] for i in range(n)]
                    add(dict(cfg, sh=[3] * n), [1e-2, 0.1, 1e-4][rep], [30, 7, 60][rep], fams3)
    # exponentiated Weibull with delta in [0.3, 0.8] (marginal and conditional) at the smallest alphas
    ew2 = [cfg for cfg in by_n[2] if cfg["cond"][1] == 0 and cfg["sh"][1] in (3, 4)] + \
          [cfg for cfg in by_n[2] if cfg["cond"][1] is None][:2]
    ew3 = [cfg for cfg in by_n[3] if cfg["cond"][1] == 0 and cfg["cond"][2] == 1 and cfg["sh"][1] == 4 and cfg["sh"][2] in (3, 4)]
    for rep in range(ctx.pick(2, 8)):
        for idx, cfg in enumerate(ew2 + ew3[:ctx.pick(2, 8)]):
            j += 1
            n = cfg["n_dim"]
            fams = ["expweibull"] * n if (idx + rep) % 2 == 0 else \
                   [["expweibull", "weibull", "lognormal"][(i + idx + rep) % 3] for i in range(n)]
            add(cfg, [1e-8, 1e-6][j % 2], (NPTS2 if n == 2 else NPTSN)[1 + j % 3], fams)
            cases[-1]["spec"] = "ewlow"
    # the number type of alpha: numpy float32 / float64 (Python float everywhere else), down to 1e-8
    t2 = [cfg for cfg in by_n[2] if cfg["cond"][1] == 0 and cfg["sh"][1] != 1]
    t3 = [cfg for cfg in by_n[3] if cfg["cond"][1] == 0 and cfg["cond"][2] == 1 and 1 not in cfg["sh"][1:]]
    for idx in range(ctx.pick(12, 48)):
        cfg = (t3 if idx % 4 == 3 else t2)[(idx * 3 + ctx.seed) % len(t3 if idx % 4 == 3 else t2)]
        j += 1
        atype = ["float32", "float32", "float64"][idx % 3]
        a = [1e-8, 1e-6, 1e-4, 1e-2, 0.1][(idx // 3) % 5]
        a = float(np.float32(a)) if atype == "float32" else a
        add(cfg, a, (NPTS2 if cfg["n_dim"] == 2 else NPTSN)[1 + j % 3])
        cases[-1]["alpha_type"] = atype
    # histories: contour -> change the same model object in place -> the same request again
    hist_cfgs = [cfg for cfg in by_n[2] if cfg["cond"][1] == 0 and cfg["sh"][1] != 1] + \
                [cfg for cfg in by_n[3] if cfg["cond"][1] == 0 and cfg["cond"][2] == 1 and 1 not in cfg["sh"][1:]]
    for k in range(ctx.pick(6, 40)):
        cfg = hist_cfgs[(k * 5 + ctx.seed) % len(hist_cfgs)]
        j += 1
        add(cfg, [1e-2, 0.1, 1e-4][k % 3], [30, 7, 60][k % 3])
        cases[-1].update(kind="history", how="parameter-change")
    for k in range(ctx.pick(1, 4)):
        cases.append(dict(kind="history", how="refit", n_dim=2, cond=[None, 0], sh=[0, 4], families=["weibull", "lognormal"],
                          alpha=[1e-2, 1e-4, 0.1, 1e-6][k], n_points=[30, 7, 180, 30][k], seed=ctx.seed + 31 + k))
    # histories that write to INNER objects (TLC: RosenblattHist, every non-empty set of modified dimensions):
    # 2-D all, 3-D a seeded subset (quick; half of it with an unchanged conditioning column) / all (thorough)
    h2 = [h for h in hists if h["n_dim"] == 2]
    h3 = [h for h in hists if h["n_dim"] == 3]
    if ctx.quick:
        same = [h for h in h3 if same_column(h)]
        rest = [h for h in h3 if not same_column(h)]
        h3 = [same[int(q)] for q in sorted(rng.choice(len(same), size=min(14, len(same)), replace=False))] + \
             [rest[int(q)] for q in sorted(rng.choice(len(rest), size=min(10, len(rest)), replace=False))]
    for k, h in enumerate(h2 + h3):
        j += 1
        kk = k + ctx.seed
        add(h, [1e-2, 0.1, 1e-4, 1e-6][kk % 4], ([30, 7, 60] if h["n_dim"] == 2 else [7, 30])[kk % (5 - h["n_dim"])])
        cases[-1].update(kind="history", how="inner-write", mods=list(h["mods"]),
                         writes=[WRITE_STYLES[(kk + i) % 3] if h["cond"][i] is not None else "attribute"
                                 for i in h["mods"]])
    for k in range(ctx.pick(2, 8)):
        cases.append(dict(kind="history", how=["seastate-item", "seastate-depfit"][k % 2], n_dim=2, cond=[None, 0],
                          sh=[0, 4], families=["weibull", "lognormal"], alpha=[1e-3, 1e-2, 1e-4, 0.1][k // 2],
                          n_points=[24, 30, 7, 180][k // 2], seed=ctx.seed + 41 + k))
    return cases


def tlc_histories(ctx):
    """Leg R for histories: every (n, cond, shape classes at construction, set of modified dimensions) TLC
    reaches in spec/RosenblattHist.tla; shape classes of unconditional dimensions carry no information for the
    concretisation and are dropped (duplicates removed).  Dimensions 0-based."""
    seen, out = set(), []
    for h in ctx.generate("RosenblattHist", "Gen_RosenblattHist.cfg"):
        cond = [None if k == 0 else k - 1 for k in h["cond"]]
        sh = [0 if cond[i] is None else int(v) for i, v in enumerate(h["sh"])]
        mods = sorted(int(m) - 1 for m in h["mods"])
        key = (h["n"], tuple(-1 if k is None else k for k in cond), tuple(sh), tuple(mods))
        if key in seen:
            continue
        seen.add(key)
        out.append({"n_dim": h["n"], "cond": cond, "sh": sh, "mods": mods})
    out.sort(key=lambda h: (h["n_dim"], [-1 if k is None else k for k in h["cond"]], h["sh"], h["mods"]))
    return out


# ---- judge ---------------------------------------------------------------------------------

def judge(ctx, cases, label, workers):
    results = M.pmap(run_case, cases, workers)
    recs, meta = [], []
    for c, outs in zip(cases, results):
        for rec, method, info in outs:
            rec = dict(rec)
            rec["id"] = len(recs) + 1
            recs.append(rec)
            meta.append((c, method, info))
    failing = ctx.validate("Trace_C01", "Trace_C01.cfg", recs, chunk=3000)
    nident = 0
    for rec, (c, method, info) in zip(recs, meta):
        key = case_key(c, method)
        ctx.case(key, nontrivial=info["nontrivial"])
        nident += info.get("identifying", 0)
        for clause in failing.get(rec["id"], []):
            detail = (f"exc={rec.get('exc')}" if rec.get("exc") else
                      f"beta={rec.get('beta')} betaref={rec.get('betaref')} r[:4]={rec.get('r', [])[:4]} "
                      + (f"rfresh[:4]={rec['rfresh'][:4]} " if rec.get("fresh") else "") +
                      f"ang[:4]={rec.get('ang', [])[:4]} entries[:2]={rec.get('entries', [])[:2]}")
            ctx.violation(clause, key, detail, replay=c)
    ctx.log(f"{label}: {len(cases)} models, {len(recs)} records judged, "
            f"{sum(1 for r in recs if r['id'] in failing)} rejected, {nident} identifying probe points")
    return recs, meta, nident, failing


def selftest(ctx, good):
    """every clause must be able to fail: corrupt one field of an accepted 2-D IFORM record"""
    import copy
    muts = {}
    g = copy.deepcopy(good)
    g["r"][0] += 100000; muts["RadiusIsBeta"] = g
    g = copy.deepcopy(good); g["beta"] += 50; muts["BetaIsRef"] = g
    g = copy.deepcopy(good); g["npoints"] += 1; muts["Count"] = g
    g = copy.deepcopy(good); g["dirs"][1] = g["dirs"][0]; muts["DirectionsDistinct"] = g
    g = copy.deepcopy(good); g["ang"] = [(a + 1_000_000) % 360_000_000 for a in g["ang"]]; muts["AnglesEquallySpaced"] = g
    g = copy.deepcopy(good); g["argmax"] = 2; muts["MaxIsMarginalQuantile"] = g
    g = copy.deepcopy(good); g["finite"] = False; muts["CoordinatesFinite"] = g
    muts["InadmissibleStructureRejected"] = dict(kind="reject", accepted=True, exc="", cond=[-1, 1])
    muts["ProbeColumn"] = dict(kind="probe", method="selftest",
                               entries=[dict(shift=1000, cands=[1000, 5000], decl=2, dim=2, point=0)])
    muts = [(cl, r) for cl, r in muts.items()]
    # the radius through the fresh model: one point off / the second map missing although announced
    g = copy.deepcopy(good); g["fresh"] = True; g["rfresh"] = list(g["r"]); g["rfresh"][-1] += 100000
    muts.append(("RadiusIsBeta", g))
    g = copy.deepcopy(good); g["fresh"] = True; g["rfresh"] = []
    muts.append(("RadiusIsBeta", g))
    recs = []
    for i, (cl, r) in enumerate(muts):
        r["id"] = i + 1
        recs.append(r)
    t = ctx.traces
    failing = ctx.validate("Trace_C01", "Trace_C01.cfg", recs)
    ctx.traces = t
    for cl, r in muts:
        if cl not in failing.get(r["id"], []):
            raise Machinery(f"selftest: corrupted record was not rejected by clause {cl}: {failing.get(r['id'])}")
    ok = copy.deepcopy(good); ok["fresh"] = True; ok["rfresh"] = list(ok["r"]); ok["id"] = 1
    if ctx.validate("Trace_C01", "Trace_C01.cfg", [ok]):
        raise Machinery("selftest: an accepted record with the same radii through the fresh model was rejected")
    ctx.traces = t
    ctx.log(f"selftest: {len(muts)} corrupted records rejected by their clauses")


def run(ctx):
    import_virocon()
    ctx.rule = ("configurations (n_dim, conditional_on structure, dependence shape class per dimension) are "
                "enumerated by TLC from spec/Rosenblatt.tla (all 32 for 2-D; 3-D: a seeded subset of 96 of 384 quick / all "
                "thorough; 4-D: 3 / 96 shape assignments for each of the 24 structures); each is concretised with "
                "shipped families (rotating over the 7) and seeded admissible parameters, alpha from "
                "{0.5,0.1,1e-2,1e-4,1e-6,1e-8} (thorough also log-uniform), n_points from {3,7,30,180|60}; both "
                "IFORM and ISORM; alpha also passed as numpy float32 / float64 (1e-8 .. 0.1); exponentiated Weibull with delta in [0.3,0.8] (marginal and conditional) at alpha "
                "1e-6/1e-8; histories on one model object: contour, change in place (assign parameters | re-fit to "
                "other data), the same (class, alpha, n_points) request again, judged against the current model; histories that "
                "write to INNER objects, enumerated by TLC from spec/RosenblattHist.tla (every structure x shape classes "
                "x non-empty set of modified dimensions, first dimension in it or not: all 12 for 2-D, 24 of 196 "
                "quick / all thorough for 3-D): dep.parameters[name] = v | dep.parameters = {...} | dep.fit(x, y) on the "
                "dependence function itself | dist.<parameter> = v on an unconditional dimension, plus the named sea-state "
                "model with mu's dependence function written / re-fitted directly; the second contour's radii are taken "
                "through the object's own cdfs (array-valued given) AND through a freshly constructed model with the "
                "current parameters. distinct = distinct (method, structure, families, shapes, alpha, n_points, seed); "
                "non-trivial = at least one conditional dimension whose parameters vary with the given (probe "
                "records: at least one point where another column would give a different shift)")
    ctx.trusted = ["TLC evaluating spec/Trace_C01.tla", "statistics.NormalDist (Phi, Phi^-1)",
                   "closed-form chi-square survival functions for n=2,3,4 + bisection (math only)",
                   "the model's own distributions[i].cdf as the map back (as the property states)",
                   "harness/models.py dependence callables (probe shifts; target curve of the direct dep.fit)",
                   "a model constructed afresh from the harness' own record of the written parameters (dep.fit: "
                   "read back from dep.parameters) has the cdfs of the modified model"]
    ctx.assumptions = ["dependence functions are vectorised and keep parameters admissible for every real given",
                       "n_points <= 60 for n_dim >= 3 (NSphere is O(n^2))",
                       "alpha = 0.5 (beta = 0): only radius and count are judged, directions are undefined"]
    ctx.model_check("Rosenblatt", ctx.pick("MC_Rosenblatt_c01_quick.cfg", "MC_Rosenblatt_c01_thorough.cfg"),
                    must_cover=("IcdfStep",))
    ctx.model_check("Rosenblatt", "MC_Rosenblatt_c01_wrongcol.cfg", expect_violation="InverseRosenblatt")
    ctx.model_check("Rosenblatt", "MC_Rosenblatt_c01_inadm.cfg", expect_violation="ReadsOnlyComputed")
    ctx.model_check("RosenblattHist", ctx.pick("MC_RosenblattHist_quick.cfg", "MC_RosenblattHist_thorough.cfg"),
                    must_cover=("IcdfStep", "Modify", "StartSecond"))
    ctx.model_check("RosenblattHist", "MC_RosenblattHist_stalememo.cfg", expect_violation="InverseRosenblattNow")
    cfgs = M.tlc_configs(ctx)
    hists = tlc_histories(ctx)
    cases = make_cases(ctx, cfgs, hists)
    # the structures ReadsOnlyComputed excludes (TLC, Admissible = FALSE) must not be constructible
    bad = M.tlc_configs(ctx, "Gen_Rosenblatt_inadm.cfg")
    for k, cfg in enumerate(bad):
        cases.append(dict(kind="reject", n_dim=cfg["n_dim"], cond=cfg["cond"], sh=cfg["sh"],
                          families=[M.FAMILIES[(k + i) % 7] for i in range(cfg["n_dim"])], alpha=0.1, n_points=3,
                          seed=ctx.seed + 77 + k))
    recs, meta, nident, failing = judge(ctx, cases, "contours", workers=ctx.pick(6, 12))
    nhist = sum(1 for (_, _, info) in meta if info.get("history") and info.get("nontrivial"))
    newlow = sum(1 for (c, m, _) in meta if c.get("spec") == "ewlow")
    ctx.notes["history_contours_after_a_change_that_moved_the_contour"] = nhist
    ctx.notes["contours_expweibull_low_delta"] = newlow
    if not ctx.violations and (nhist < 4 or newlow < 8):
        raise Machinery(f"vacuous: {nhist} history contours / {newlow} low-delta exponentiated Weibull contours")
    # second contours (a) judged through a fresh model as well, (b) of a model whose modified dimension is evaluated
    # at the conditioning values of the first contour (where anything kept per conditioning value would be served)
    nfresh = sum(1 for r, (_, _, info) in zip(recs, meta) if info.get("history") and r.get("fresh") and r["rfresh"])
    nsame = {mth: sum(1 for (_, m, info) in meta if info.get("samecol") and info.get("nontrivial")
                      and m.startswith(mth)) for mth in ("iform", "isorm")}
    ctx.notes["history_contours_also_mapped_back_through_a_fresh_model"] = nfresh
    ctx.notes["history_contours_moved_with_unchanged_conditioning_column"] = nsame
    ctx.notes["tlc_histories"] = len(hists)
    if not ctx.violations and (nfresh < 20 or min(nsame.values()) < 6):
        raise Machinery(f"vacuous: {nfresh} history contours judged through a fresh model / {nsame} moved with an "
                        f"unchanged conditioning column")
    colsens = sum(1 for (_, _, info) in meta if info.get("colsens"))
    ctx.notes["contours_sensitive_to_the_conditioning_column"] = colsens
    if not ctx.violations and (nident == 0 or colsens < 20):
        raise Machinery(f"vacuous: {nident} probe points / {colsens} contours would notice a wrong conditioning column")
    good = next((r for r, (c, m, _) in zip(recs, meta) if r["kind"] == "contour" and m == "iform"
                 and r["ndim"] == 2 and r["npoints"] >= 7 and r["betaref"] > 10_000_000 and r["finite"]
                 and r["id"] not in failing), None)
    if good is not None and not ctx.violations:
        selftest(ctx, good)
    elif not ctx.violations:
        raise Machinery("no accepted 2-D IFORM record available for the selftest")
    i = next((k for k, r in enumerate(recs) if r["kind"] == "contour" and r["ndim"] == 3 and r["finite"]), 0)
    small = dict(recs[i]); small["r"] = small["r"][:5]; small["dirs"] = small["dirs"][:5]
    ctx.sample({"case": meta[i][0], "record (first 5 points)": small})
    pi = next((k for k, r in enumerate(recs) if r["kind"] == "probe"), None)
    if pi is not None:
        ctx.sample({"case": meta[pi][0], "probe record (first 3 entries)": recs[pi]["entries"][:3]})
    ctx.exhaustive = False
    ctx.notes["models"] = len(cases)
    ctx.notes["tlc_configurations"] = len(cfgs)
    ctx.notes["inadmissible_structures_tried"] = len(bad)
    ctx.notes["identifying_probe_points"] = nident
    sweep_n_points(ctx)
    # growth beyond the listed property: the sphere-point relaxation used for n_dim >= 3
    from . import ext_nsphere
    ext_nsphere.run_ext(ctx, import_virocon())


def sweep_n_points(ctx):
    """'exactly n_points points, equally spaced angles' for EVERY n_points in a range (2-D, both methods):
    float angle tables (arange / linspace variants) go wrong only for sparse n_points values."""
    vc = import_virocon()
    model = vc.GlobalHierarchicalModel([{"distribution": vc.NormalDistribution(mu=1.0, sigma=0.5)},
                                        {"distribution": vc.LogNormalDistribution(mu=0.3, sigma=0.4)}])
    hi = ctx.pick(400, 1500)
    recs, keys = [], []
    for n in range(3, hi + 1):
        for method in (("iform", "isorm") if (n % 2 == 0 or not ctx.quick) else ("iform",)):
            c = dict(n_dim=2, cond=[None, None], n_points=n, alpha=0.05)
            rec, _ = contour_record(vc, model, c, method)
            rec["id"] = len(recs) + 1
            recs.append(rec)
            keys.append(f"{method} sweep model=normal,lognormal independent alpha=0.05 n_points={n}")
    failing = ctx.validate("Trace_C01", "Trace_C01.cfg", recs)
    for r, k in zip(recs, keys):
        ctx.case(k)
        for clause in failing.get(r["id"], []):
            ctx.violation(clause, k, f"exc={r['exc']} shapeok={r['shapeok']} len={len(r['r'])}", replay=None)
    ctx.notes["n_points_sweep"] = f"3..{hi}"


def replay(ctx, case):
    import_virocon()
    judge(ctx, [case["case"]], "replay", workers=1)
