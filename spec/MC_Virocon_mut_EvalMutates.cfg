SPECIFICATION Spec
CONSTANTS
  MaxLen = 5
  MaxMut = 2
  MaxContours = 2
  Deviation = "EvalMutates"
  EmitBeh = FALSE
INVARIANT ResultCurrent
INVARIANT PostOnSnapshot
INVARIANT EvalInvisible
INVARIANT CacheSane
PROPERTY SnapshotStable
PROPERTY OnlyMutatorsMutate
CHECK_DEADLOCK FALSE
