------------------------------- MODULE NSphere -------------------------------
(* Point relaxation on the unit n-sphere (virocon/_nsphere.py), used by IFORM / ISORM for   *)
(* n_dim >= 3.  Beyond the listed properties (DESIGN section 7, item 1).                    *)
(*                                                                                        *)
(* The algorithm: start from seeded random unit vectors (energy E0), then for iteration    *)
(* k = 1 .. MaxIters-1 move every point along its tangential Coulomb force with step 3/k,   *)
(* renormalise, compute the potential energy and remember the best state seen; return the   *)
(* best state.  The energies are abstract naturals chosen non-deterministically; the        *)
(* bookkeeping is what is modelled.  KeepLast = TRUE is the deviation "return the last      *)
(* state instead of the best one".                                                         *)
EXTENDS Naturals, Sequences, Fix

CONSTANTS MaxIters, Energies, KeepLast
VARIABLES k, cur, best, init, seen, result, pc
vars == <<k, cur, best, init, seen, result, pc>>

Init == /\ init \in Energies /\ cur = init /\ best = init /\ seen = <<init>>
        /\ k = 1 /\ result = 0 /\ pc = "relax"

Iterate == /\ pc = "relax" /\ k < MaxIters
           /\ \E e \in Energies :
                /\ cur' = e
                /\ best' = IF e < best THEN e ELSE best
                /\ seen' = Append(seen, e)
           /\ k' = k + 1
           /\ UNCHANGED <<init, result, pc>>
Finish == /\ pc = "relax" /\ k = MaxIters
          /\ result' = IF KeepLast THEN cur ELSE best
          /\ pc' = "done"
          /\ UNCHANGED <<k, cur, best, init, seen>>
Next == Iterate \/ Finish
Spec == Init /\ [][Next]_vars

NeverWorseThanStart == pc = "done" => result <= init
ReturnsBestSeen == pc = "done" => result = MinSeq(seen)
IterationCount == pc = "done" => Len(seen) = MaxIters
=============================================================================
