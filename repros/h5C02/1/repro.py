"""
C02 - HighestDensityContour with default limits and a single-precision alpha.

_check_grid forms  1 - 0.2**n_dim * alpha  with the alpha the user passed.  For a
numpy.float32 alpha the whole expression is evaluated in float32 (NEP 50: the Python
floats are "weak"), so for a 3-D model and alpha < ~3.7e-6 the non-exceedance
probability rounds to exactly 1.0, marginal_icdf(1.0) = inf, the default upper limits
are inf and the contour dies with  ValueError('Maximum allowed size exceeded')
(np.arange(0, inf, delta)).  The same alpha as Python float / float64 works.
"""
import sys
import warnings

import numpy as np

from virocon import (
    GlobalHierarchicalModel,
    WeibullDistribution,
    ExponentiatedWeibullDistribution,
    LogNormalDistribution,
    HighestDensityContour,
)

warnings.simplefilter("ignore")

model = GlobalHierarchicalModel(
    [
        {"distribution": WeibullDistribution(alpha=2, beta=1.5)},
        {"distribution": ExponentiatedWeibullDistribution(alpha=1, beta=1.2, delta=2)},
        {"distribution": LogNormalDistribution(mu=1, sigma=0.3)},
    ]
)
deltas = [0.5, 0.5, 0.5]  # default limits, explicit (coarse) cell sizes: ~30 cells / axis

failures = 0

# Reference: the same value as a double works.
alpha32 = np.float32(1e-6)  # inside [1e-6, 0.3]
ref = HighestDensityContour(model, float(alpha32), limits=None, deltas=deltas)
print("float  alpha:", float(alpha32), "limits", [tuple(map(float, l)) for l in ref.limits],
      "fm", ref.fm, "n boundary cells", len(ref.coordinates))

for a in (np.float32(1e-6), np.float32(2e-6), np.float32(3.5e-6)):
    try:
        c = HighestDensityContour(model, a, limits=None, deltas=deltas)
    except Exception as e:  # noqa
        print(f"float32 alpha {a!r}: raised {e!r}")
        failures += 1
        continue
    finite = all(np.isfinite(l).all() for l in c.limits)
    print(f"float32 alpha {a!r}: limits {c.limits} fm {c.fm}")
    if not finite:
        failures += 1

# the root cause, shown directly
p = 1 - 0.2**3 * alpha32
print("1 - 0.2**3 * np.float32(1e-6) =", repr(p), "-> icdf:", model.marginal_icdf(p, 0))
if p == 1:
    failures += 1

if failures:
    print("VIOLATION: default-limit highest density contour fails for a float32 alpha in scope")
    sys.exit(1)
print("ok")
