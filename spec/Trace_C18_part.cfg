SPECIFICATION Spec
CONSTANTS BaseSet = {}  PairBaseSet = {}  CheckCoverage = FALSE
INVARIANT Consumed
CHECK_DEADLOCK FALSE
