SPECIFICATION GenSpec
CONSTANTS Decimals = 6  NoClose = FALSE  AlwaysTxt = FALSE
CHECK_DEADLOCK FALSE
INVARIANT EmitCase
