SPECIFICATION Spec
CONSTANTS L = 4  NP = 3  NQ = 2  TouchToo = FALSE
CHECK_DEADLOCK FALSE
INVARIANT Emit
