SPECIFICATION Spec
CONSTANTS HFams = {"ScipyGamma", "ScipyRayleigh", "ScipyBeta", "LogNormal"}  MaxInst = 3  MaxOps = 5  SharedIndex = FALSE  SharedFitKw = FALSE
CHECK_DEADLOCK FALSE
INVARIANT InstancesShareNoState
