------------------------------- MODULE Export -------------------------------
(* save_contour_coordinates and plot_2D_contour as a small state machine over the        *)
(* configuration cases of C20 (also the generator of leg R: GenSpec / EmitCase).          *)
(*   save : ResolvePath -> Write -> ReadBack        plot : Draw                            *)
(* Model coordinates have 7 decimals (integers * 1e-7) so that rounding to 6 is visible.  *)
(* Named deviations: Decimals = 5 (format 1.5f), NoClose = TRUE (closing point missing),        *)
(* RawHeader = TRUE (line breaks of the semantics strings written into the header).               *)
EXTENDS ExportOps, TLC, Json

CONSTANTS Decimals, NoClose, AlwaysTxt, RawHeader
VARIABLES pc, cfg, fpath, lines, parsed, poly

vars == <<pc, cfg, fpath, lines, parsed, poly>>

(* alphabet of semantics strings: "Hs", "Wave height", "a;b", "hoehe" with o-umlaut,       *)
(* Greek theta, "m" + superscript two, the empty string, "x (y)"                          *)
Str == << <<72, 115>>, <<87, 97, 118, 101, 32, 104, 101, 105, 103, 104, 116>>, <<97, 59, 98>>,
          <<104, 246, 104, 101>>, <<952>>, <<109, 178>>, <<>>, <<120, 32, 40, 121, 41>>,
          \* with line breaks: "Significant wave" LF "height", "a" CR LF "b", "a" CR "b", LF "lead", "trail" LF
          <<83, 105, 103, 110, 105, 102, 105, 99, 97, 110, 116, 32, 119, 97, 118, 101, 10, 104, 101, 105, 103, 104, 116>>,
          <<97, 13, 10, 98>>, <<97, 13, 98>>, <<10, 108, 101, 97, 100>>, <<116, 114, 97, 105, 108, 10>>,
          \* white space that must survive: "a" TAB "b", "a  b", "a   b", " lead", "trail ", "a " LF "b", "a" LF " b"
          <<97, 9, 98>>, <<97, 32, 32, 98>>, <<97, 32, 32, 32, 98>>, <<32, 108, 101, 97, 100>>,
          <<116, 114, 97, 105, 108, 32>>, <<97, 32, 10, 98>>, <<97, 10, 32, 98>> >>
NStr == Len(Str)
NameOf(s, d) == Str[((s + d) % NStr) + 1]
UnitOf(s, d) == Str[((s + 3 * d + 2) % NStr) + 1]
SymbolOf(s, d) == Str[((s + 5 * d + 1) % NStr) + 1]
(* paths relative to the case directory: out, out.txt, out.csv, d.v1/out, d.v1/out.dat,    *)
(* .hidden, out., "a b/c d", d.v1/.h, x.y.z                                                *)
Paths == << <<111, 117, 116>>, <<111, 117, 116, 46, 116, 120, 116>>, <<111, 117, 116, 46, 99, 115, 118>>,
            <<100, 46, 118, 49, 47, 111, 117, 116>>, <<100, 46, 118, 49, 47, 111, 117, 116, 46, 100, 97, 116>>,
            <<46, 104, 105, 100, 100, 101, 110>>, <<111, 117, 116, 46>>, <<97, 32, 98, 47, 99, 32, 100>>,
            <<100, 46, 118, 49, 47, 46, 104>>, <<120, 46, 121, 46, 122>> >>

(* the contour object: a stand-in with npts points, or a real contour of one of the 2-D classes  *)
(* (then npts is only a place holder).  aspath: the path is handed over as a pathlib.Path.       *)
(* "hdc_multiregion": a highest density contour whose region has several parts (2-D bimodal   *)
(* model); "hdc_multiregion3d": the same in 3-D (saving only)                                  *)
RealObjs == {"iform", "isorm", "hdc", "ds", "and", "or", "hdc_multiregion"}
Objs == {"standin"} \cup RealObjs
DcKinds == {"none", "true", "array", "list", "tuple", "tuples"}
SaveCases == {c \in [fn : {"save"}, obj : Objs, npts : 1..4, ndim : {2, 3}, sem : 0..NStr,
                     path : 1..Len(Paths), aspath : BOOLEAN] :
                /\ (c.obj # "standin" => c.npts = 4 /\ c.ndim = 2 /\ c.sem \in {0, 3} /\ c.path \in {1, 2, 4})
                /\ (c.aspath => c.sem \in {0, 3} /\ c.npts \in {2, 4})}
Save3d == [fn : {"save"}, obj : {"hdc_multiregion3d"}, npts : {4}, ndim : {3}, sem : {0, 3},
           path : {1, 4}, aspath : BOOLEAN]
DesignCases == [fn : {"design"}, obj : RealObjs, swap : BOOLEAN]
(* plot_dependence_functions with dependence functions that are constant in the conditioning    *)
(* value and return a scalar / a 0-d array / a 1-element array                                    *)
DepCases == [fn : {"depconst"}, returns : {"scalar", "zerod", "one"}, constant : {"sigma", "mu", "all"},
             fitted : BOOLEAN]
PlotCases == {c \in [fn : {"plot"}, obj : Objs, npts : 1..4, swap : BOOLEAN, dc : DcKinds,
                     sample : BOOLEAN, sem : {0, 3}, axgiven : BOOLEAN] :
                /\ (c.dc = "true" => c.npts >= 3)
                /\ (c.obj # "standin" => c.npts = 4 /\ ~c.axgiven)
                /\ (c.dc \in {"list", "tuple", "tuples"} => c.sem = 0 /\ c.npts \in {1, 4})}

(* model coordinates, units of 1e-7 *)
V7 == <<12345675, -5, 25000000, 30000005, 0, -99999995, 4, 15, -12345685, 999999995>>
Coord7(k, d) == V7[((3 * k + d) % Len(V7)) + 1]

(* round half even to `dec` decimals; result in units of 1e-6 *)
Pow10(n) == IF n = 0 THEN 1 ELSE IF n = 1 THEN 10 ELSE IF n = 2 THEN 100 ELSE 1000
RoundTo(v7, dec) ==
    LET m == Pow10(7 - dec) a == Abs(v7) qq == a \div m r == a % m
        up == 2 * r > m \/ (2 * r = m /\ qq % 2 = 1)
        q == (IF up THEN qq + 1 ELSE qq) * Pow10(6 - dec) * (IF dec = 6 THEN 1 ELSE 1)
    IN [neg |-> v7 < 0, q |-> q]
Signed(c) == IF c.neg THEN -c.q ELSE c.q

(* text of a value with `dec` decimals *)
Pow10Big(n) == IF n <= 3 THEN Pow10(n) ELSE Pow10(3) * Pow10(n - 3)
PadN(n, dec) == [i \in 1..dec |-> Dig(n, Pow10Big(dec - i))]
FmtN(c, dec) == LET u == Pow10Big(6 - dec) w == c.q \div u          \* value in units of 10^-dec
                IN (IF c.neg THEN <<Minus>> ELSE <<>>) \o Digits(w \div Pow10Big(dec)) \o <<Dot>> \o PadN(w % Pow10Big(dec), dec)

(* parse "[-]ddd.ddd" into units of 1e-6 *)
RECURSIVE ParseDigits(_, _)
ParseDigits(s, acc) == IF s = <<>> THEN acc ELSE ParseDigits(Tail(s), 10 * acc + (Head(s) - 48))
ParseFix(s) ==
    LET neg == s # <<>> /\ s[1] = Minus
        body == IF neg THEN Tail(s) ELSE s
        dot == LastIdx(body, Dot)
        ip == ParseDigits(SubSeq(body, 1, dot - 1), 0)
        fr == SubSeq(body, dot + 1, Len(body))
        fp == ParseDigits(fr, 0) * Pow10Big(6 - Len(fr))
    IN IF neg THEN -(ip * 1000000 + fp) ELSE ip * 1000000 + fp
RECURSIVE Split(_, _)
Split(s, sep) == LET i == IF \E j \in 1..Len(s) : s[j] = sep THEN SetMin({j \in 1..Len(s) : s[j] = sep}) ELSE 0
                 IN IF i = 0 THEN <<s>> ELSE <<SubSeq(s, 1, i - 1)>> \o Split(SubSeq(s, i + 1, Len(s)), sep)

Names(c) == [d \in 1..c.ndim |-> IF c.sem = 0 THEN DefaultName(d) ELSE NameOf(c.sem, d)]
Units(c) == [d \in 1..c.ndim |-> IF c.sem = 0 THEN DefaultUnit ELSE UnitOf(c.sem, d)]

Init ==
    /\ pc = "start" /\ cfg \in SaveCases \cup PlotCases
    /\ fpath = <<>> /\ lines = <<>> /\ parsed = <<>> /\ poly = <<>>

ResolvePath ==
    /\ pc = "start" /\ cfg.fn = "save"
    /\ fpath' = IF AlwaysTxt THEN Paths[cfg.path] \o TxtExt ELSE FinalPath(Paths[cfg.path])
    /\ pc' = "path"
    /\ UNCHANGED <<cfg, lines, parsed, poly>>

Write ==
    /\ pc = "path"
    /\ lines' = SplitBreaks(IF RawHeader THEN Header(Names(cfg), Units(cfg))
                                          ELSE Flat(Header(Names(cfg), Units(cfg))), <<>>) \o
                [k \in 1..cfg.npts |->
                   Join(<<Semi>>, [d \in 1..cfg.ndim |-> FmtN(RoundTo(Coord7(k, d), Decimals), Decimals)])]
    /\ pc' = "written"
    /\ UNCHANGED <<cfg, fpath, parsed, poly>>

ReadBack ==          \* the data rows are the last npts lines of the file
    /\ pc = "written"
    /\ parsed' = [k \in 1..cfg.npts |->
                    LET f == Split(lines[Len(lines) - cfg.npts + k], Semi) IN [d \in 1..Len(f) |-> ParseFix(f[d])]]
    /\ pc' = "done"
    /\ UNCHANGED <<cfg, fpath, lines, poly>>

Draw ==
    /\ pc = "start" /\ cfg.fn = "plot"
    /\ poly' = LET pts == [k \in 1..cfg.npts |-> <<Coord7(k, 1), Coord7(k, 2)>>]
                   full == Polyline(pts, cfg.swap)
               IN IF NoClose THEN SubSeq(full, 1, cfg.npts) ELSE full
    /\ pc' = "done"
    /\ UNCHANGED <<cfg, fpath, lines, parsed>>

Next == ResolvePath \/ Write \/ ReadBack \/ Draw
Spec == Init /\ [][Next]_vars

----------------------------------------------------------------------------
Saved == pc = "done" /\ cfg.fn = "save"
Drawn == pc = "done" /\ cfg.fn = "plot"

(* '.txt' is appended iff the path has no extension *)
PathRule == Saved => (fpath = Paths[cfg.path] <=> HasExt(Paths[cfg.path]))
            /\ (Saved /\ ~HasExt(Paths[cfg.path]) => fpath = Paths[cfg.path] \o TxtExt)
(* one header line + one row per point, one ';'-separated field per dimension *)
Shape == Saved => Len(lines) = 1 + cfg.npts /\ \A k \in 1..cfg.npts : Len(parsed[k]) = cfg.ndim
(* exactly one header line, whatever the semantics strings contain *)
OneHeaderLine == Saved => Len(lines) = 1 + cfg.npts /\ ~HasBreak(lines[1])
                           /\ BreaksFlattened(lines[1], Header(Names(cfg), Units(cfg)))
(* the parsed values are the coordinates rounded to 6 decimals *)
ParsedIsRound6 == Saved => \A k \in 1..cfg.npts : \A d \in 1..cfg.ndim :
                     parsed[k][d] = Signed(RoundTo(Coord7(k, d), 6))
(* the written text is exactly the the C format 1.6f text *)
TextIsFmt6 == Saved => \A k \in 1..cfg.npts :
                 lines[k + 1] = Row([d \in 1..cfg.ndim |-> RoundTo(Coord7(k, d), 6)])
(* the polyline is closed and passes through the points in order, axes exchanged iff swap *)
ClosedPolyline == Drawn =>
    /\ Len(poly) = cfg.npts + 1 /\ poly[Len(poly)] = poly[1]
    /\ \A k \in 1..cfg.npts : poly[k] = (IF cfg.swap THEN <<Coord7(k, 2), Coord7(k, 1)>> ELSE <<Coord7(k, 1), Coord7(k, 2)>>)

----------------------------------------------------------------------------
(* leg R: the initial states are the cases (plus the cases that only the driver executes) *)
GenInit ==
    /\ pc = "start" /\ cfg \in SaveCases \cup PlotCases \cup Save3d \cup DesignCases \cup DepCases
    /\ fpath = <<>> /\ lines = <<>> /\ parsed = <<>> /\ poly = <<>>
GenSpec == GenInit /\ [][UNCHANGED vars]_vars
CaseJson(c) ==
    IF c.fn = "depconst" THEN c
    ELSE IF c.fn = "design" THEN [fn |-> "design", obj |-> c.obj, swap |-> c.swap]
    ELSE IF c.fn = "save"
    THEN [fn |-> "save", obj |-> c.obj, aspath |-> c.aspath, npts |-> c.npts, ndim |-> c.ndim, sem |-> c.sem,
          names |-> Names(c), units |-> Units(c), path |-> Paths[c.path]]
    ELSE [fn |-> "plot", obj |-> c.obj, npts |-> c.npts, swap |-> c.swap, dc |-> c.dc, sample |-> c.sample, sem |-> c.sem,
          axgiven |-> c.axgiven,
          names |-> [d \in 1..2 |-> NameOf(c.sem, d)], units |-> [d \in 1..2 |-> UnitOf(c.sem, d)],
          symbols |-> [d \in 1..2 |-> SymbolOf(c.sem, d)]]
EmitCase == PrintT(<<"BEH", ToJson(CaseJson(cfg))>>)
=============================================================================
