SPECIFICATION Spec
CONSTANTS MaxOps = 5  Policy = "never"  EmitBeh = FALSE
CHECK_DEADLOCK FALSE
INVARIANT CacheCurrent
