SPECIFICATION Spec
CONSTANTS MaxOps = 5  Policy = "fitonly"  EmitBeh = FALSE
CHECK_DEADLOCK FALSE
INVARIANT CacheCurrent
