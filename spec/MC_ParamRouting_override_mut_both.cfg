SPECIFICATION Spec
CONSTANTS Scen = "override"  NGiven = 2  MutKind = "bothornone"  MutFam = "NormFit"  MutName = "none"
CHECK_DEADLOCK FALSE
INVARIANT OverrideOutcomeAsSpecified
