SPECIFICATION Spec
INVARIANT Consumed
CHECK_DEADLOCK FALSE
