------------------------------- MODULE EwLsq -------------------------------
(* C13 - ExponentiatedWeibullDistribution._fit_lsq as a state machine:                   *)
(*   start -Dispatch-> (ValueError | NotImplementedError | sorting)                      *)
(*         -Sort-> -Weights-> -Rank-> -DropZeros-> (fit-fixed-delta | fit-free-delta)    *)
(* explored for every (method, weights kind, fixed set) on a one-point sample (the       *)
(* decision table) and, for the fitting outcomes, for ALL data vectors of length <=      *)
(* MaxLen over 0..MaxV with all array-weight vectors over Wts and the keyword weights.   *)
(* Constants CoSort / ZerosFirst / PosRule switch on the named deviations.               *)
EXTENDS EwLsqOps, TLC, Json

CONSTANTS MaxLen, MaxV, Wts,
          CoSort,        \* TRUE = array weights are permuted with the data
          ZerosFirst,    \* TRUE = deviation: zeros removed before ranking
          PosRule,       \* "mid" = (i - 1/2)/n ; "in" = deviation i/n
          TieByWeight,   \* FALSE = deviation: tied observations keep their input order (array weights)
          SharedPos,     \* TRUE = deviation: with a fixed delta the linearised positions
                         \*        log10(-ln(1-p^(1/delta))) are kept in a process-wide table keyed by the
                         \*        sample size only, so an earlier fit with another delta supplies them
          StaleDelta,    \* TRUE = deviation: with a fixed delta the fit uses the object's CURRENT delta attribute
                         \*        (left by an earlier fit / an assignment) instead of the f_delta in force
          StalePositions,\* TRUE = deviation: the linearised positions of the most recent call are kept in a
                         \*        class-level slot keyed by (number of NON-ZERO observations, delta); a sample with
                         \*        the same non-zero count but another number of zeros gets the stale positions
          HistLen        \* histories (an earlier fixed-delta fit on an equally long sample) are explored
                         \* for data vectors up to this length
VARIABLES pc, method, wk, F, d, w, ord, cur,
          dcode,         \* the delta in force: 0 = free, 1 / 2 = two different fixed values
          prev,          \* history: 0 = no earlier fit; 1 / 2 = an earlier fit of ANOTHER instance with that
                         \*          fixed delta on a sample of the same length
          objd,          \* object history: 0 = fresh object (its delta is the f_delta in force); 1 / 2 = the
                         \*   object's delta attribute holds that other value (an earlier fit with a free or another
                         \*   fixed delta, an assignment, a deepcopy of such an object) and f_delta was set afterwards
          pz,            \* history: -1 = none; k = the previous least-squares fit (same delta in force) was made
                         \*   on a sample with the same non-zero observations and k zeros
          lind           \* the delta the linearised positions handed to the regression were computed for

vars == <<pc, method, wk, F, d, w, ord, cur, dcode, prev, objd, pz, lind>>

Methods == {"lsq", "wlsq", "mle", "other"}
DataVecs == UNION {[1..n -> 0..MaxV] : n \in 1..MaxLen}
WtVecs(n) == [1..n -> Wts]
One == CHOOSE u \in Wts : TRUE

Init ==
    /\ pc = "start"
    /\ ord = <<>>
    /\ \/ /\ method \in Methods \ {"mle"}          \* decision table on a one-point sample
          /\ wk \in GoodWeights \cup BadWeights
          /\ F \in SUBSET ParamNames
          /\ d = <<1>> /\ w = <<One>>
       \/ /\ method \in FitMethods                 \* the discrete pipeline, all small inputs
          /\ F \in {{}, {"delta"}}
          /\ d \in DataVecs
          /\ \/ wk = "array" /\ w \in WtVecs(Len(d))
             \/ wk \in {"none", "linear", "quadratic", "cubic"} /\ w = [i \in 1..Len(d) |-> One]
    /\ cur = Obs(d, w)
    /\ lind = -1
    /\ dcode \in IF F = {"delta"} THEN {1, 2} ELSE {0}
    /\ prev \in IF Len(d) <= HistLen THEN {0, 1, 2} ELSE {0}
    /\ pz \in IF Len(d) <= HistLen /\ F = {"delta"} THEN {-1, 0, 1, 2} ELSE {-1}
    /\ objd \in IF Len(d) <= HistLen /\ F = {"delta"} THEN {0, 1, 2} ELSE {0}

Dispatch ==
    /\ pc = "start"
    /\ pc' = IF method \notin FitMethods THEN "ValueError"
             ELSE IF wk \in BadWeights THEN "ValueError"         \* the code checks weights first
             ELSE IF ByFixed(F) = "NotImplementedError" THEN "NotImplementedError"
             ELSE IF ZerosFirst THEN "dropfirst" ELSE "sorting"
    /\ UNCHANGED <<method, wk, F, d, w, ord, cur, dcode, prev, objd, pz, lind>>

DropFirst ==                                       \* only under the ZerosFirst deviation
    /\ pc = "dropfirst"
    /\ cur' = DropZeroStep(cur)
    /\ pc' = "sorting"
    /\ UNCHANGED <<method, wk, F, d, w, ord, dcode, prev, objd, pz, lind>>

Sort ==
    /\ pc = "sorting"
    /\ ord' = ArgSortObs(cur, wk, TieByWeight)
    /\ cur' = SortStep(cur, ord')
    /\ pc' = "weights"
    /\ UNCHANGED <<method, wk, F, d, w, dcode, prev, objd, pz, lind>>

Weights ==
    /\ pc = "weights"
    /\ cur' = IF wk = "array" THEN CoSortStep(cur, ord, CoSort) ELSE KeywordStep(cur, wk)
    /\ pc' = "ranking"
    /\ UNCHANGED <<method, wk, F, d, w, ord, dcode, prev, objd, pz, lind>>

Rank ==
    /\ pc = "ranking"
    /\ LET z == Cardinality({i \in 1..Len(cur) : cur[i].x = 0})
           fresh == RankStep(cur, PosRule)
       IN cur' = IF StalePositions /\ F = {"delta"} /\ pz # -1 /\ pz # z
                 THEN [i \in 1..Len(cur) |->          \* the positions the previous sample's non-zero observations had
                         [fresh[i] EXCEPT !.pn = @ - 2 * z + 2 * pz, !.pd = @ - 2 * z + 2 * pz]]
                 ELSE fresh
    /\ lind' = IF SharedPos /\ F = {"delta"} /\ prev # 0 THEN prev
               ELSE IF StaleDelta /\ F = {"delta"} /\ objd # 0 THEN objd
               ELSE dcode
    /\ pc' = "dropping"
    /\ UNCHANGED <<method, wk, F, d, w, ord, dcode, prev, objd, pz>>

DropZeros ==
    /\ pc = "dropping"
    /\ cur' = DropZeroStep(cur)
    /\ pc' = ByFixed(F)
    /\ UNCHANGED <<method, wk, F, d, w, ord, dcode, prev, objd, pz, lind>>

Next == Dispatch \/ DropFirst \/ Sort \/ Weights \/ Rank \/ DropZeros
Spec == Init /\ [][Next]_vars

Terminal == {"ValueError", "NotImplementedError", "fit-fixed-delta", "fit-free-delta"}
Done == pc \in {"fit-fixed-delta", "fit-free-delta"}
Fin(dd, ww, k) == Final(dd, ww, k, CoSort, ZerosFirst, PosRule, TieByWeight)

(* ---- invariants ---- *)
OutcomeTable == pc \in Terminal => pc \in Outcomes(method, wk, F)
MachineIsPipeline == Done => cur = Fin(d, w, wk)
PositionsAfterRanking == Done => PositionsRule(cur, d)
ZerosRemoved == Done => ZerosDropped(cur, d)
WeightsStayWithData == Done /\ wk = "array" => WeightsTravel(cur, d, w, Wts)
(* fit(perm data, perm weights) is the same regression problem as fit(data, weights) *)
OrderInvariant ==
    Done => \A pi \in Perms(Len(d)) :
              SameProblem(Fin(Permute(d, pi), Permute(w, pi), wk), cur)
TiesOrderedByWeight == Done /\ wk = "array" => TiesByWeight(cur)
(* a keyword is the same as the corresponding array aligned with the (unsorted) data *)
KeywordEqualsArray ==
    Done /\ wk \in {"linear", "quadratic", "cubic"} =>
        Fin(d, [i \in 1..Len(d) |-> Pow(d[i], KeyExp(wk))], "array") = cur
NoneEqualsOnes ==
    Done /\ wk = "none" => Fin(d, [i \in 1..Len(d) |-> 1], "array") = cur

(* the regression sees the positions linearised with the delta in force, whatever was fitted before *)
LinearisedForOwnDelta == Done => lind = dcode

(* ---- leg R: the enumerated inputs *)
CaseRec == [method |-> method, wk |-> wk, fixed |-> F, d |-> d, w |-> w]
Emit == pc = "start" /\ prev = 0 /\ objd = 0 /\ pz = -1 /\ dcode <= 1 => PrintT(<<"BEH", ToJson(CaseRec)>>)
=============================================================================
