SPECIFICATION Spec
CONSTANTS NDims = {2, 3}  EmitCases = TRUE  NegativeDefault = FALSE
CHECK_DEADLOCK FALSE
INVARIANT Emit
