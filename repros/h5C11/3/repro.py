"""C11/C12: ExponentiatedWeibullDistribution MLE with delta fixed (true value 10) and default
start values collapses to alpha ~ 1e-7, beta ~ 0.08 for data of magnitude 0.05 .. 0.07."""
import sys
import numpy as np
import scipy.stats as sts
from virocon.distributions import ExponentiatedWeibullDistribution


def loglik(x, alpha, beta, delta):  # independent oracle: scipy's logpdf
    return float(np.sum(sts.exponweib.logpdf(x, delta, beta, loc=0, scale=alpha)))


violations = 0
for beta, delta, median, n, seed in [
    (1.5, 10.0, 0.05, 1000, 2),
    (1.0, 10.0, 0.05, 1000, 4),
    (2.5, 10.0, 0.05, 200, 5),
    (1.0, 10.0, 0.07, 200, 1),
]:
    alpha = median / sts.exponweib.ppf(0.5, delta, beta)
    u = sts.uniform.rvs(size=n, random_state=seed)
    data = sts.exponweib.ppf(u, delta, beta, loc=0, scale=alpha)
    assert data.min() > 0 and abs(np.median(data) / median - 1) < 0.2

    dist = ExponentiatedWeibullDistribution(f_delta=delta)
    dist.fit(data)
    assert dist.delta == delta
    ll_fit = loglik(data, dist.alpha, dist.beta, dist.delta)
    ll_gen = loglik(data, alpha, beta, delta)
    if ll_fit < ll_gen - 1.0:
        violations += 1
        print(
            f"beta={beta} delta={delta} (fixed) alpha={alpha:.4g} median={median} n={n} seed={seed}: "
            f"fitted {dist}\n   loglik fitted {ll_fit:.1f} < generating {ll_gen:.1f}"
        )
print("violations:", violations)
sys.exit(1 if violations else 0)
