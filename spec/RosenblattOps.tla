--------------------------- MODULE RosenblattOps ---------------------------
(* The hierarchical (Rosenblatt) chain of a GlobalHierarchicalModel on an integer lattice. *)
(*                                                                                      *)
(* Dimensions are 1-based.  cond[i] = 0 means dimension i is unconditional, otherwise   *)
(* cond[i] is the dimension whose value is the `given` of dimension i (virocon's        *)
(* conditional_on, shifted by one).  Every dimension has a shape class s; Qm(s, u, g)    *)
(* is its conditional quantile function (u = probability level, g = value of the given) *)
(* and Dens(s, x, g) its conditional density, both on small integer lattices.           *)
(*                                                                                      *)
(* Layers: 1. maps and their inverses; 2. the declarative joint density and its sums    *)
(* (the integrals of C06 are exact finite sums here); 3. the argument orders that       *)
(* cdf / marginal_pdf / marginal_cdf hand to scipy.integrate.nquad and the permutation  *)
(* that has to undo them.  The state machine that performs the chain step by step is    *)
(* Rosenblatt.tla; the clause operators of the trace specifications are in Trace_C0x.   *)
EXTENDS Integers, Sequences, FiniteSets, Fix
FSE == INSTANCE FiniteSetsExt      \* named: its Functions!Range would clash with Fix!Range

----------------------------------------------------------------------------
(* 1. conditional quantile maps: strictly increasing in u for every given g             *)
Qm(s, u, g) == CASE s = 1 -> 2 * u + 1            \* does not depend on the given
                 [] s = 2 -> u + g                \* location moves with the given
                 [] s = 3 -> u * (g + 1) + g      \* scale and location move with the given
                 [] s = 4 -> u + 2 * g            \* location, other slope

(* the conditional cdf on the lattice: the u with Qm(s, u, g) = x, or -1 if x is not a   *)
(* quantile of that conditional distribution                                            *)
Cm(s, x, g, lat) == IF \E u \in lat : Qm(s, u, g) = x
                    THEN CHOOSE u \in lat : Qm(s, u, g) = x ELSE -1

StrictlyIncreasing(s, g, lat) == \A a, b \in lat : a < b => Qm(s, a, g) < Qm(s, b, g)

GivenOf(cond, xrow, i) == IF cond[i] = 0 THEN 0 ELSE xrow[cond[i]]

----------------------------------------------------------------------------
(* 2. densities: integer weights on V = 0..2, every conditional density sums to DensSum  *)
V == 0..2
DensSum == 6
Dens(s, x, g) == CASE s = 1 -> x + 1                              \* independent of the given
                   [] s = 2 -> ((x + g) % 3) + 1
                   [] s = 3 -> ((x + 2 * g) % 3) + 1
                   [] s = 4 -> IF x = g % 3 THEN 4 ELSE 1

RECURSIVE Pow(_, _)
Pow(b, e) == IF e = 0 THEN 1 ELSE b * Pow(b, e - 1)

(* the joint density the property prescribes: product of the conditional densities at the *)
(* value of the DECLARED conditioning variable                                           *)
RECURSIVE JointFrom(_, _, _, _)
JointFrom(cond, sh, xv, i) ==
    IF i > Len(xv) THEN 1
    ELSE Dens(sh[i], xv[i], GivenOf(cond, xv, i)) * JointFrom(cond, sh, xv, i + 1)
Joint(cond, sh, xv) == JointFrom(cond, sh, xv, 1)

Points(n) == [1..n -> V]
SumJoint(cond, sh, S) == FSE!FoldSet(LAMBDA y, a : a + Joint(cond, sh, y), 0, S)

OrthantSum(cond, sh, n, xv) == SumJoint(cond, sh, {y \in Points(n) : \A k \in 1..n : y[k] <= xv[k]})
MarginalPdfSum(cond, sh, n, dim, v) == SumJoint(cond, sh, {y \in Points(n) : y[dim] = v})
MarginalCdfSum(cond, sh, n, dim, v) == SumJoint(cond, sh, {y \in Points(n) : y[dim] <= v})
TotalMass(cond, sh, n) == SumJoint(cond, sh, Points(n))

----------------------------------------------------------------------------
(* 3. nquad argument orders.  nquad integrates func(a_1, ..., a_n) with a_j ranging over  *)
(* ranges[j]; position j carries model variable ArgOrder[j].  The model's pdf wants the   *)
(* vector in model order, x[k] = a_{Reorder[k]} with Reorder the INVERSE permutation     *)
(* (np.argsort(arg_order)).                                                               *)
Others(n, dim) == [j \in 1..(n - 1) |-> IF j < dim THEN j ELSE j + 1]       \* ascending, dim removed
Reverse(s) == [j \in 1..Len(s) |-> s[Len(s) + 1 - j]]
ArgOrderCdf(n) == [j \in 1..n |-> j]
ArgOrderMarginal(n, dim) == Reverse(Others(n, dim)) \o <<dim>>     \* last dimensions first, dim last
InversePerm(p) == [k \in 1..Len(p) |-> CHOOSE j \in 1..Len(p) : p[j] = k]
(* np.argsort of a sequence of distinct integers: position of the k-th smallest entry.  For a      *)
(* permutation of 1..n it is the inverse permutation; for anything else (e.g. a raw negative index *)
(* among the entries) it is NOT                                                                    *)
ArgSort(p) == [k \in 1..Len(p) |->
                 CHOOSE j \in 1..Len(p) : Cardinality({i \in 1..Len(p) : p[i] < p[j]}) = k - 1]
(* a variable may be addressed from the end: -1 is the last one *)
NormDim(n, d) == IF d < 0 THEN n + 1 + d ELSE d
DimArgs(n) == (1..n) \cup {0 - k : k \in 1..n}
IsInverse(p, q) == \A k \in 1..Len(p) : p[q[k]] = k

(* what nquad computes: args range over `ranges` (a sequence of sets), the integrand is   *)
(* the joint density at the reordered vector                                             *)
ArgTuples(ranges) == {a \in [1..Len(ranges) -> V] : \A j \in 1..Len(ranges) : a[j] \in ranges[j]}
NquadSum(cond, sh, n, ranges, reorder) ==
    FSE!FoldSet(LAMBDA a, acc : acc + Joint(cond, sh, [k \in 1..n |-> a[reorder[k]]]), 0, ArgTuples(ranges))

UpTo(v) == {w \in V : w <= v}
CodeCdf(cond, sh, n, xv, reorder) ==
    NquadSum(cond, sh, n, [j \in 1..n |-> UpTo(xv[j])], reorder)
CodeMarginalPdf(cond, sh, n, dim, v, reorder) ==
    IF cond[dim] = 0 THEN Dens(sh[dim], v, 0) * Pow(DensSum, n - 1)     \* shortcut of the code
    ELSE NquadSum(cond, sh, n, [j \in 1..n |-> IF j < n THEN V ELSE {v}], reorder)
CodeMarginalCdf(cond, sh, n, dim, v, reorder) ==
    IF cond[dim] = 0 THEN FSE!FoldSet(LAMBDA w, a : a + Dens(sh[dim], w, 0), 0, UpTo(v)) * Pow(DensSum, n - 1)
    ELSE NquadSum(cond, sh, n, [j \in 1..n |-> IF j < n THEN V ELSE UpTo(v)], reorder)

----------------------------------------------------------------------------
(* 4. statistical agreement: the Dvoretzky-Kiefer-Wolfowitz bound at error probability    *)
(* 1e-12 per comparison.  For n iid draws from F the Kolmogorov distance D_n satisfies      *)
(* P(D_n > e) <= 2 exp(-2 n e^2), so D_n^2 * 2n <= ln(2e12) = 28.324 except with            *)
(* probability 1e-12.  Integer form: d5 = D_n in units of 1e-5 rounded DOWN, clamped to      *)
(* 40000 (d*d < 2^31; a distance above 0.4 fails for every n >= 100 anyway):                 *)
(*     d5 * d5 <= (1416200000 \div n) * 100        (= 1e10 * 28.324 / (2n))                  *)
(* For n < 100 the bound exceeds 0.37 and nothing is claimed.                               *)
DkwOk(d5, n) == n < 100 \/ LET d == Min2(d5, 40000) IN d * d <= (1416200000 \div n) * 100

=============================================================================
