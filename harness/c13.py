"""C13 - exponentiated-Weibull least squares = weighted quantile regression, any weights.

M: TLC explores spec/EwLsq.tla: the decision table Outcome(method, weights kind, fixed set) and the
   exact discrete pipeline of _fit_lsq (stable sort, plotting positions (2i-1)/(2n), co-sorting of
   array weights, removal of zeros after ranking) for ALL vectors of length <= 4 over {0..3} with
   all weight vectors over {1,2} and the keyword weights; mutation configs (weights not co-sorted,
   zeros removed before ranking, positions i/n) must violate OrderInvariant / KeywordEqualsArray /
   PositionsAfterRanking; a process-wide table of linearised positions keyed by the sample size must violate
   LinearisedForOwnDelta (history: an earlier fixed-delta fit on an equally long sample).
R: the same module emits every enumerated input (table rows and small vectors); EwLsqCases.tla
   enumerates the law cases (weights kind x delta fixed/free x method x sample class x n x rep).
V: the driver runs the real fit for each: table rows -> outcome; small vectors -> what _fit_lsq
   hands to the regression (recording wrapper around the static _estimate_alpha_beta); law cases
   -> deviations from an independent weighted regression (numpy.linalg.lstsq on sqrt(w)-scaled
   rows) and between metamorphic variants; every law fit is made four times - as the first fit of a fresh
   forked process (history-free reference), in a fresh process directly after a fixed-delta fit of another
   instance on an equally long sample (EarlierFitDoesNotLeak), in the run's sequence, and again in another
   seeded order - and must return bit-identical parameters (CaseOrderIndependent); every fixed-delta fit is
   also made as the LAST fit of one object with a past (free fit first, another f_delta first, delta attribute
   overwritten, deep copy of such an object) and must equal the fresh object's fit, reported delta included
   (ObjectHistoryIndependent); pairs of consecutive fits with the same delta in force on samples with equal
   numbers of non-zero observations and 0 / 1 / 12 zeros, in both orders, on one object and on two, are each
   judged against the regression and against the second fit made alone in a fresh process; spec/Trace_C13.tla judges every record.
"""
import copy
import json
from fractions import Fraction
import math
import os
import select
import struct
import warnings
import zlib

import numpy as np

from .common import Machinery, import_virocon

LEVEL = "model_checking"
CLAMP = 2_000_000_000


def qrel(v):
    """relative deviation -> x 1e12, clamped (nan / inf -> clamp)"""
    v = abs(float(v))
    if v != v or v == float("inf"):
        return CLAMP
    return min(CLAMP, int(round(v * 1e12)))


def qlog(a, b):
    """|ln(a/b)| x 1e6, clamped: a deviation measure that does not saturate at 2e-3"""
    try:
        v = abs(math.log(a / b))
    except (ValueError, ZeroDivisionError):
        return CLAMP
    return min(CLAMP, int(round(v * 1e6))) if math.isfinite(v) else CLAMP


def qsigned(v):
    v = float(v)
    if v != v:
        return -CLAMP
    return max(-CLAMP, min(CLAMP, int(round(v * 1e12))))


def q6(v):
    v = float(v)
    if v != v or abs(v) == float("inf"):
        return CLAMP
    return max(-CLAMP, min(CLAMP, int(round(v * 1e6))))


# ----------------------------------------------------------------------------------
# independent reference (no virocon code): weighted regression in log-log space

def prepare(x, warr):
    """sorted non-zero observations, their plotting positions among ALL n, normalised weights.
    Tied observations are ordered by their weight (the pairing of tied ranks and weights that does not
    depend on the order of the input)."""
    x = np.asarray(x, float)
    n = len(x)
    wfull = np.ones(n) if warr is None else np.asarray(warr, float)
    idx = sorted(range(n), key=lambda i: (x[i], wfull[i], i))
    xs = x[idx]
    p = (np.arange(1, n + 1) - 0.5) / n
    ws = wfull[idx]
    keep = xs != 0
    xs, p, ws = xs[keep], p[keep], ws[keep]
    return xs, p, ws / math.fsum(ws.tolist())


def pstar(p, delta):
    """log10(-ln(1 - p^(1/delta))) without underflow or cancellation: with t = ln(p)/delta < 0,
    -ln(1 - e^t) = e^t (1 + e^t/2 + ...) for very negative t; ln(1 - e^t) via expm1 / log1p otherwise"""
    t = np.log(np.asarray(p, float)) / delta
    with np.errstate(all="ignore"):
        near0 = np.log10(-np.log(-np.expm1(np.minimum(t, -1e-300))))     # t > -ln 2: 1 - e^t via expm1
        mid = np.log10(-np.log1p(-np.exp(t)))
        far = t / math.log(10.0)                   # e^t < 4e-18: -ln(1 - e^t) = e^t to double precision
    return np.where(t < -40.0, far, np.where(t > -0.6931471805599453, near0, mid))


def ref_regression(xs, p, wn, delta):
    ps = pstar(p, delta)
    sw = np.sqrt(wn)
    A = np.column_stack([np.ones(len(ps)), ps]) * sw[:, None]
    sol = np.linalg.lstsq(A, np.log10(xs) * sw, rcond=None)[0]
    return float(sol[0]), float(sol[1])  # log10 alpha, 1/beta


def gradient(xs, p, wn, delta, alpha, beta):
    """normalised components of the normal equations at the returned (log10 alpha, 1/beta)"""
    if not (alpha > 0 and beta != 0 and math.isfinite(alpha) and math.isfinite(beta)):
        return float("inf")
    a, b = math.log10(alpha), 1.0 / beta
    ps = pstar(p, delta)
    xst = np.log10(xs)
    res = xst - a - b * ps
    s1 = float(np.sum(wn * (np.abs(xst) + abs(a) + np.abs(b * ps)))) or 1.0
    s2 = float(np.sum(wn * np.abs(ps) * (np.abs(xst) + abs(a) + np.abs(b * ps)))) or 1.0
    return max(abs(float(np.sum(wn * res))) / s1, abs(float(np.sum(wn * ps * res))) / s2)


def xspace_error(xs, p, wn, delta):
    try:
        a, b = ref_regression(xs, p, wn, delta)
    except np.linalg.LinAlgError:
        return float("nan")
    with np.errstate(all="ignore"):
        xh = 10 ** (a + b * pstar(p, delta))
        return float(np.sum(wn * (xs - xh) ** 2))


# ----------------------------------------------------------------------------------
# samples

def sample(cls, n, rng):
    u = rng.random(n)
    if cls == "ew":
        x = 2.0 * (-np.log1p(-u ** (1 / 1.6))) ** (1 / 1.3)
    elif cls == "weibull":
        x = 1.5 * rng.weibull(1.7, n)
    elif cls == "lognormal":
        x = np.exp(0.4 + 0.45 * rng.standard_normal(n))
    elif cls == "uniform":                                 # bounded upper tail: small optimal delta
        x = rng.uniform(0.5, 3.0, n)
    elif cls == "smalldelta":                              # interior optimum at delta ~ 3e-4 (Beta(0.05, 1))
        x = rng.uniform(0.0, 1.0, n) ** 20
        x = np.where(x > 0, x, 1e-30)
    elif cls == "zeros":
        x = 1.8 * (-np.log1p(-u ** (1 / 2.2))) ** (1 / 1.1)
        k = max(1, n // 12)
        x[rng.choice(n, size=k, replace=False)] = 0.0
    elif cls == "integers":                                # counts / rounded heights in mm: above 1290 = sqrt(2^31)/36
        x = np.round(1500.0 * rng.weibull(1.6, n) + 200.0 * (rng.random(n) < 0.9))
    elif cls == "ties":
        x = np.round(2.5 * rng.weibull(1.4, n), 1)        # 0.1 m resolution: ties, some zeros
        if np.count_nonzero(x) < 5:
            x = x + 0.1
    else:
        raise Machinery(f"unknown sample class {cls}")
    return x  # in random (unsorted) order


def weights_for(wk, x, rng, cls):
    """returns (weights argument for fit, equivalent array aligned with the unsorted data or None)"""
    if wk == "none":
        return None, None
    if wk in ("linear", "quadratic", "cubic"):
        k = {"linear": 1, "quadratic": 2, "cubic": 3}[wk]
        return wk, x ** k
    arr = rng.uniform(0.2, 3.0, len(x))      # arbitrary, also among tied observations
    return arr, arr


def do_fit(vc, x, method, weights, fdelta):
    d = vc.ExponentiatedWeibullDistribution(f_delta=fdelta) if fdelta is not None else \
        vc.ExponentiatedWeibullDistribution()
    d.fit(x, method=method, weights=weights)
    return float(d.alpha), float(d.beta), float(d.delta)


def bits(vals):
    """exact bit patterns of doubles as 22-bit limbs (TLC integers are 32 bit)"""
    out = []
    for v in vals:
        b = struct.unpack(">Q", struct.pack(">d", float(v)))[0]
        out += [b >> 44, (b >> 22) & 0x3FFFFF, b & 0x3FFFFF]
    return out


def law_inputs(c, seed):
    """sample, weights and the fixed delta of a law case (a function of the case and the seed only)"""
    rng = np.random.default_rng(zlib.crc32(f"{seed}|{c['cls']}|{c['n']}|{c['rep']}|{c['wk']}".encode()))
    x = sample(c["cls"], c["n"], rng)
    warg, warr = weights_for(c["wk"], x, rng, c["cls"])
    # the fixed delta rotates in the TLC case (different values on samples of the SAME length within one run)
    fdelta = float(c["fd"]) if c["fixed"] else None
    return x, warg, warr, fdelta, rng


def run_fresh(func, args_list, procs):
    """func(arg) for every arg, each call as the only work of a freshly forked child of THIS process (so the
    child's module state is the state of this process at the time of the call); returns the JSON-able results"""
    results = [None] * len(args_list)
    running = {}      # fd -> (index, pid, buffer)
    nxt = 0
    while nxt < len(args_list) or running:
        while nxt < len(args_list) and len(running) < procs:
            rfd, wfd = os.pipe()
            pid = os.fork()
            if pid == 0:
                os.close(rfd)
                try:
                    out = json.dumps(func(args_list[nxt]))
                except BaseException as e:  # noqa
                    out = json.dumps({"__exc__": f"{type(e).__name__}: {e}"[:200]})
                with os.fdopen(wfd, "w") as fh:
                    fh.write(out)
                os._exit(0)
            os.close(wfd)
            running[rfd] = (nxt, pid, [])
            nxt += 1
        ready, _, _ = select.select(list(running), [], [])
        for fd in ready:
            chunk = os.read(fd, 1 << 16)
            idx, pid, buf = running[fd]
            if chunk:
                buf.append(chunk)
            else:
                os.close(fd)
                os.waitpid(pid, 0)
                del running[fd]
                results[idx] = json.loads(b"".join(buf).decode() or "null")
    return results


def fresh_fit(arg):
    """the fit of a law case in a fresh process: as its first fit (history False), or directly after a
    fixed-delta least-squares fit of ANOTHER instance on an equally long sample (history True)"""
    c, seed, history = arg
    vc = import_virocon()
    x, warg, warr, fdelta, _ = law_inputs(c, seed)
    with warnings.catch_warnings():
        warnings.simplefilter("ignore")
        if history:
            do_fit(vc, x[::-1].copy(), c["method"], None, fdelta * 1.7 if fdelta is not None else 1.9)
        return bits(do_fit(vc, x, c["method"], warg, fdelta))


def fresh_fits(cases, seed):
    """must be called before anything is fitted in this process (the children are forked from it);
    returns (bits0, bitsH) per case"""
    procs = max(1, min(12, (os.cpu_count() or 2) - 2))
    args = [(c, seed, h) for c in cases for h in (False, True)]
    res = [r if isinstance(r, list) else [] for r in run_fresh(fresh_fit, args, procs)]
    return list(zip(res[0::2], res[1::2]))


ALL_HUGE = [False]      # set by run(): thorough runs all three huge constructor values per case
HISTORIES = ("free_then_fix", "refix", "assign_delta", "deepcopy")


def object_histories(vc, x, method, warg, fdelta):
    """ONE object with a past: its last fit, made with f_delta = fdelta in force, must be the fit of a fresh
    ExponentiatedWeibullDistribution(f_delta=fdelta) - bit for bit, reported delta included"""
    EW = vc.ExponentiatedWeibullDistribution
    out = []

    def last(obj):
        obj.f_delta = fdelta
        obj.fit(x, method=method, weights=warg)
        return bits([obj.alpha, obj.beta, obj.delta])

    o = EW()
    o.fit(x, method=method, weights=warg)               # free delta first, then the delta is fixed
    out.append(dict(name="free_then_fix", bits=last(o)))
    o = EW(f_delta=fdelta * 1.9 + 0.3)
    o.fit(x, method=method, weights=warg)               # another fixed delta first
    twin = copy.deepcopy(o)
    out.append(dict(name="refix", bits=last(o)))
    out.append(dict(name="deepcopy", bits=last(twin)))  # the same past, on a deep copy
    o = EW(f_delta=fdelta)
    o.delta = fdelta * 0.5 + 3.3                        # the attribute is overwritten between construction and fit
    out.append(dict(name="assign_delta", bits=last(o)))
    return out


def free_histories(vc, c, x, method, warg, warr, base, all_huge=False):
    """ONE object with a past, delta free: (a) an earlier fit to a sample whose optimal delta is tiny leaves a
    delta ~1e-4 behind, (b) the object is constructed with delta=1e-4.  The fit to x must then still be a
    local minimiser and agree with the fresh object's fit (measured here; judged in Trace_C13)."""
    EW = vc.ExponentiatedWeibullDistribution
    al, be, de = base
    xs, p, wn = prepare(x, warr)
    out = []
    a_small = np.random.default_rng(zlib.crc32(law_key(c).encode())).beta(0.2, 1.0, 1000)
    a_small = np.where(a_small > 0, a_small, 1e-30)

    def measure(name, obj):
        obj.fit(x, method=method, weights=warg)
        a2, b2, d2 = float(obj.alpha), float(obj.beta), float(obj.delta)
        ok = all(math.isfinite(v) for v in (a2, b2, d2)) and d2 > 0
        h = 1e-3 * d2 + 5e-4
        e0 = xspace_error(xs, p, wn, d2) if ok else float("nan")
        em = xspace_error(xs, p, wn, d2 - h) if ok and d2 - h > 0 else float("inf")
        ep = xspace_error(xs, p, wn, d2 + h) if ok else float("nan")
        out.append(dict(name=name, abl=max(qlog(a2, al), qlog(b2, be)) if ok else CLAMP,
                        dd=abs(q6(d2) - q6(de)) if ok else CLAMP, dq=q6(d2) if ok else 0,
                        g=qrel(gradient(xs, p, wn, d2, a2, b2)) if ok else CLAMP,
                        emdef=bool(math.isfinite(em)), epdef=bool(math.isfinite(ep)),
                        em=qsigned((em - e0) / e0) if math.isfinite(em) and e0 > 0 else 0,
                        ep=qsigned((ep - e0) / e0) if math.isfinite(ep) and e0 > 0 else 0))

    o = EW()
    o.fit(a_small, method=method)           # leaves a tiny delta in the object
    measure("after_small_delta_fit", o)
    measure("constructed_small_delta", EW(delta=1e-4))
    if not all_huge and len(x) > 200:      # quick: the huge-start histories on the samples of up to 200 points
        return out
    # the mirror image: a delta that ran away in an earlier fit (a small exponential sample with cubic weights
    # has no minimiser in delta), or a huge delta given to the constructor
    o = EW()
    o.fit(runaway_sample(vc), method="wlsq", weights="cubic")
    if not o.delta > 1e10:
        raise Machinery(f"vacuous history: the first fit did not run away (delta = {o.delta})")
    measure("after_runaway_fit", o)
    bigs = ("1e14", "1e16", "1e20")
    if not all_huge:                  # quick: one of the three per case, rotating
        bigs = (bigs[zlib.crc32(law_key(c).encode()) % 3],)
    for big in bigs:
        measure("constructed_delta_" + big, EW(delta=float(big)))
    return out


_RUNAWAY = {}


def runaway_sample(vc):
    """a 30-point exponential sample on which the free-delta fit with cubic weights runs away (delta > 1e10);
    searched once per process, independent of the case"""
    if "x" not in _RUNAWAY:
        for sd in range(40):
            x = np.random.default_rng(sd).exponential(1.0, 30)
            d = vc.ExponentiatedWeibullDistribution()
            with warnings.catch_warnings():
                warnings.simplefilter("ignore")
                d.fit(x, method="wlsq", weights="cubic")
            if d.delta > 1e10:
                _RUNAWAY["x"] = x
                break
        else:
            raise Machinery("no exponential sample found on which the delta search runs away")
    return _RUNAWAY["x"]


def law_again(vc, c, seed):
    """history pass: first ANOTHER instance with a different fixed delta is fitted by least squares to an
    equally long sample, then the fit of the case is repeated; returns the bit patterns of its result"""
    x, warg, warr, fdelta, _ = law_inputs(c, seed)
    other_delta = fdelta * 1.7 if fdelta is not None else 1.9
    with warnings.catch_warnings():
        warnings.simplefilter("ignore")
        do_fit(vc, x[::-1].copy(), c["method"], None, other_delta)
        return bits(do_fit(vc, x, c["method"], warg, fdelta))


def law_record(vc, rid, c, seed):
    x, warg, warr, fdelta, rng = law_inputs(c, seed)
    x0 = x.copy()
    wk, method = c["wk"], c["method"]
    haszeros = bool(np.any(x == 0))
    isint = c["cls"] == "integers"
    rec = dict(id=rid, kind="law", wk=wk, fixed=bool(c["fixed"]), n=c["n"], exc="", haszeros=haszeros, isint=isint,
               tiecons=True, variants=[], g=0, ab=0, dq=0, dfix=0, pos=True, em=0, ep=0, hq=0, emdef=True, epdef=True,
               bits0=[], bitsH=[], bitsA=[], bitsB=[], hist=[], fhist=[], hfull=False)
    with warnings.catch_warnings():
        warnings.simplefilter("ignore")
        try:
            al, be, de = do_fit(vc, x, method, warg, fdelta)
            rec["bitsA"] = rec["bitsB"] = rec["bits0"] = rec["bitsH"] = bits([al, be, de])
            pos = all(math.isfinite(v) for v in (al, be, de)) and al > 0 and be > 0 and de > 0
            rec.update(pos=bool(pos), dq=q6(de) if pos else 0)
            if not pos:
                rec["detail"] = f"alpha={al} beta={be} delta={de}"
                return rec, x
            xs, p, wn = prepare(x, warr)
            a_ref, b_ref = ref_regression(xs, p, wn, de)
            rec["g"] = qrel(gradient(xs, p, wn, de, al, be))
            rec["ab"] = max(qrel((al - 10 ** a_ref) / 10 ** a_ref), qrel((be - 1 / b_ref) * b_ref))
            rec["dfix"] = qrel((de - fdelta) / fdelta) if fdelta is not None else 0

            def variant(name, xv, wv, warr_v):
                a2, b2, d2 = do_fit(vc, xv, method, wv, fdelta)
                xs2, p2, wn2 = prepare(xv, warr_v)
                ok = all(math.isfinite(v) for v in (a2, b2, d2)) and d2 > 0
                rec["variants"].append(dict(
                    name=name,
                    ab=max(qrel((a2 - al) / al), qrel((b2 - be) / be)),
                    abl=max(qlog(a2, al), qlog(b2, be)) if ok else CLAMP,
                    dd=abs(q6(d2) - q6(de)) if ok else CLAMP,
                    g=qrel(gradient(xs2, p2, wn2, d2, a2, b2)) if ok else CLAMP))

            zero = x == 0
            if wk == "array":
                for cf in (1.0 / float(np.sum(warr)), 1e-10, 1e10):     # normalised, tiny, huge
                    variant("scaled", x, cf * warr, cf * warr)
            elif wk == "none":
                variant("ones", x, np.ones(len(x)), np.ones(len(x)))
            else:
                variant("kwarray", x, warr.copy(), warr)
            if haszeros:
                base = np.ones(len(x)) if warr is None else warr.copy()
                wz = base.copy()
                wz[zero] = 1000.0 if wk in ("array", "none") else 5.0
                variant("zeroweights", x, wz, wz)
            if fdelta is not None:
                rec["hist"] = object_histories(vc, x, method, warg, fdelta)
            else:
                rec["fhist"] = free_histories(vc, c, x, method, warg, warr, (al, be, de), all_huge=ALL_HUGE[0])
                rec["hfull"] = bool(ALL_HUGE[0] or len(x) <= 200)
            if isint:       # the same numbers as integers (the weights x, x^2, x^3 must not overflow)
                for dt in (np.int32, np.int64):
                    variant("intdtype", x.astype(dt), warg, warr)
            perm = rng.permutation(len(x))
            variant("perm", x[perm], warg[perm] if wk == "array" else warg,
                    warr[perm] if warr is not None else None)
            if not c["fixed"]:
                h = 1e-3 * de + 5e-4
                e0 = xspace_error(xs, p, wn, de)
                em = xspace_error(xs, p, wn, de - h) if de - h > 0 else float("inf")
                ep = xspace_error(xs, p, wn, de + h)
                # emdef / epdef: the neighbour's error is representable in double precision (p^(1/delta) > 0)
                rec.update(hq=q6(h), emdef=bool(math.isfinite(em)), epdef=bool(math.isfinite(ep)),
                           em=qsigned((em - e0) / e0) if e0 > 0 and math.isfinite(em) else 0,
                           ep=qsigned((ep - e0) / e0) if e0 > 0 and math.isfinite(ep) else 0)
                rec["detail"] = f"delta={de!r} E={e0!r} E-={em!r} E+={ep!r}"
        except Exception as e:  # noqa
            rec["exc"] = f"{type(e).__name__}: {e}"[:200]
    if not np.array_equal(x, x0):
        rec["exc"] = "InputMutated"
    return rec, x


# ----------------------------------------------------------------------------------
# pairs of fits with equal delta, equal numbers of non-zero observations, different numbers of zeros

def zp_inputs(c, seed):
    rng = np.random.default_rng(zlib.crc32(f"{seed}|zp|{c['wk']}|{c['method']}|{c['npos']}|{c['za']}|{c['zb']}|{c['objs']}".encode()))
    out = []
    for z in (c["za"], c["zb"]):
        u = rng.random(c["npos"])
        x = np.concatenate([2.0 * (-np.log1p(-u ** (1 / 1.6))) ** (1 / 1.3), np.zeros(z)])
        x = x[rng.permutation(len(x))]
        warg, warr = weights_for(c["wk"], x, rng, "zp")
        out.append((x, warg, warr))
    return out, float(c["fd"])


def zp_fresh(arg):
    """the SECOND fit of the pair as the only fit of a fresh process"""
    c, seed = arg
    vc = import_virocon()
    (_, (x, warg, _)), fd = zp_inputs(c, seed)
    with warnings.catch_warnings():
        warnings.simplefilter("ignore")
        return bits(do_fit(vc, x, c["method"], warg, fd))


def zp_record(vc, rid, c, seed, b0):
    (a, b), fd = zp_inputs(c, seed)
    EW = vc.ExponentiatedWeibullDistribution
    rec = dict(id=rid, kind="zeropair", exc="", pos=True, g=0, ab=0, g1=0, ab1=0, bits0=b0, bitsS=[])
    with warnings.catch_warnings():
        warnings.simplefilter("ignore")
        try:
            o1 = EW(f_delta=fd)
            o1.fit(a[0], method=c["method"], weights=a[1])
            r1 = (float(o1.alpha), float(o1.beta), float(o1.delta))
            o2 = o1 if c["objs"] == "one" else EW(f_delta=fd)
            o2.fit(b[0], method=c["method"], weights=b[1])
            r2 = (float(o2.alpha), float(o2.beta), float(o2.delta))
            rec["bitsS"] = bits(r2)
            for (x, _, warr), (al, be, de), gk, ak in ((a, r1, "g1", "ab1"), (b, r2, "g", "ab")):
                ok = all(math.isfinite(v) for v in (al, be, de)) and al > 0 and be > 0 and de == fd
                if not ok:
                    rec["pos"] = False
                    continue
                xs, p, wn = prepare(x, warr)
                a_ref, b_ref = ref_regression(xs, p, wn, de)
                rec[gk] = qrel(gradient(xs, p, wn, de, al, be))
                rec[ak] = max(qrel((al - 10 ** a_ref) / 10 ** a_ref), qrel((be - 1 / b_ref) * b_ref))
        except Exception as e:  # noqa
            rec["exc"] = f"{type(e).__name__}: {e}"[:200]
    return rec


def zp_key(c):
    return (f"zeropair weights={c['wk']} delta={c['fd']} method={c['method']} nonzero={c['npos']} "
            f"zeros={c['za']}->{c['zb']} objects={c['objs']}")


# ----------------------------------------------------------------------------------
# one dominating weight: exact rational reference

def exact_regression(xs, p, w, delta):
    """the weighted least-squares line through (p*, x*) solved EXACTLY (rational arithmetic on the float
    coordinates); returns log10(alpha), 1/beta as floats"""
    ps = [Fraction(float(v)) for v in pstar(p, delta)]
    xst = [Fraction(math.log10(float(v))) for v in xs]
    wf = [Fraction(float(v)) for v in w]
    sw = sum(wf)
    pb = sum(a * b for a, b in zip(wf, ps)) / sw
    xb = sum(a * b for a, b in zip(wf, xst)) / sw
    cov = sum(a * (b - pb) * (c - xb) for a, b, c in zip(wf, ps, xst))
    var = sum(a * (b - pb) ** 2 for a, b in zip(wf, ps))
    slope = cov / var
    return float(xb - slope * pb), float(slope)


def dominant_inputs(c, seed):
    rng = np.random.default_rng(zlib.crc32(f"{seed}|dom|{c['dom']}|{c['method']}|{c['rep']}".encode()))
    x = rng.weibull(2.0, 100)
    dom = c["dom"]
    if dom.startswith("w"):
        eps = float(dom[1:])         # "w1e16" -> 1e16: ratio of the dominating weight to the others
        w = np.full(len(x), 1.0 / eps)
        w[int(np.argmax(x))] = 1.0
        return x, w, w
    x[int(np.argmax(x))] = float(dom[5:])     # "cubic1e5": one far outlier (a spike left in the data)
    return x, "cubic", x ** 3


def dominant_record(vc, rid, c, seed):
    x, warg, warr = dominant_inputs(c, seed)
    fd = float(c["fd"])
    rec = dict(id=rid, kind="dominant", exc="", pos=True, ab=0)
    with warnings.catch_warnings():
        warnings.simplefilter("ignore")
        try:
            al, be, de = do_fit(vc, x, c["method"], warg, fd)
            ok = all(math.isfinite(v) for v in (al, be, de)) and al > 0 and be > 0 and de == fd
            rec["pos"] = bool(ok)
            rec["detail"] = f"alpha={al!r} beta={be!r}"
            if ok:
                xs, p, wn = prepare(x, warr)
                a_ref, b_ref = exact_regression(xs, p, wn, de)
                rec["ab"] = max(qrel((al - 10 ** a_ref) / 10 ** a_ref), qrel((be - 1 / b_ref) * b_ref))
                rec["detail"] += f" exact alpha={10 ** a_ref!r} beta={1 / b_ref!r}"
        except Exception as e:  # noqa
            rec["exc"] = f"{type(e).__name__}: {e}"[:200]
    return rec


def dominant_key(c):
    return f"dominant weights={c['dom']} delta={c['fd']} method={c['method']} rep={c['rep']}"


def law_key(c):
    return (f"law weights={c['wk']} delta={c['fd'] if c['fixed'] else 'free'} method={c['method']} "
            f"class={c['cls']} n={c['n']} rep={c['rep']}")


# ----------------------------------------------------------------------------------
# decision table and discrete pipeline

def table_record(vc, rid, c, x):
    fs = sorted(c["fixed"])
    kw = {f"f_{k}": {"alpha": 1.9, "beta": 1.4, "delta": 1.7}[k] for k in fs}
    wk = c["wk"]
    weights = {"none": None, "unknown": "quartic", "scalar": 3.5, "array": np.linspace(0.5, 2.0, len(x)),
               "badshape": np.linspace(0.5, 2.0, len(x) - 1)}.get(wk, wk)
    rec = dict(id=rid, kind="table", method=c["method"], wk=wk, fixedset=fs, outcome="")
    with warnings.catch_warnings():
        warnings.simplefilter("ignore")
        try:
            d = vc.ExponentiatedWeibullDistribution(**kw)
            d.fit(x, method=c["method"], weights=weights)
            if "delta" in fs:
                rec["outcome"] = "fit-fixed-delta" if d.delta == 1.7 else "fit-delta-changed"
            else:
                rec["outcome"] = "fit-free-delta" if d.delta != 1 else "fit-delta-untouched"
        except Exception as e:  # noqa
            rec["outcome"] = type(e).__name__
    return rec


class Recorder:
    """recording wrapper around the static ExponentiatedWeibullDistribution._estimate_alpha_beta"""

    def __init__(self, vc):
        self.cls = vc.ExponentiatedWeibullDistribution
        self.orig = self.cls.__dict__.get("_estimate_alpha_beta")
        self.ok = isinstance(self.orig, staticmethod)
        self.last = None

    def __enter__(self):
        if self.ok:
            f = self.orig.__func__

            def wrapped(delta, x, p, w, *a, **k):
                self.last = (np.array(x, float), np.array(p, float), np.array(w, float))
                return f(delta, x, p, w, *a, **k)

            self.cls._estimate_alpha_beta = staticmethod(wrapped)
        return self

    def __exit__(self, *a):
        if self.ok:
            self.cls._estimate_alpha_beta = self.orig


def discrete_record(vc, rec_, rid, c):
    d = [int(v) for v in c["d"]]
    w = [int(v) for v in c["w"]]
    wk = c["wk"]
    n = len(d)
    x = np.array(d, float)
    weights = np.array(w, float) if wk == "array" else (None if wk == "none" else wk)
    fdelta = 1.3 if "delta" in c["fixed"] else None
    rec = dict(id=rid, kind="discrete", d=d, w=w, wk=wk, exc="", onlat=True, rx=[], rpn=[], rw=[], wsumq=10**9)
    rec_.last = None
    with warnings.catch_warnings(), np.errstate(all="ignore"):
        warnings.simplefilter("ignore")
        try:
            do_fit(vc, x, c["method"], weights, fdelta)
        except Exception as e:  # noqa
            rec["exc"] = f"{type(e).__name__}: {e}"[:200]
            return rec
    if rec_.last is None:
        rec["exc"] = "NoRegressionCall"
        return rec
    xs, p, ws = rec_.last
    if not (len(xs) == len(p) == len(ws)):
        rec["onlat"] = False
        return rec
    k = {"none": 0, "linear": 1, "quadratic": 2, "cubic": 3}.get(wk)
    if wk == "none":
        wscale = 1.0                              # None = ones, as they are
    elif wk == "array":
        wscale = float(sum(w))                    # an array is normalised to sum 1 (over all n observations)
    else:
        wscale = float(sum(v ** k for v in d))    # keywords are normalised to sum 1 by the code
    pn = p * 2 * n
    wv = ws * wscale
    onlat = bool(np.all(np.abs(pn - np.round(pn)) < 1e-9) and np.all(np.abs(xs - np.round(xs)) < 1e-12)
                 and (np.all(np.isfinite(wv)) and np.all(np.abs(wv - np.round(wv)) < 1e-9)))
    if wk not in ("array", "none") and wscale == 0:   # all-zero data with a keyword: 0/0 weights
        wv = np.zeros(len(xs))
        onlat = bool(np.all(np.abs(pn - np.round(pn)) < 1e-9))
    wsum = float(np.sum(ws))
    rec.update(onlat=onlat, rx=[int(round(v)) for v in xs], rpn=[int(round(v)) for v in pn],
               rw=[int(round(v)) if math.isfinite(v) else -1 for v in wv],
               # sum of the weights handed to the regression x 1e9 (0/0 for all-zero data with a keyword: exempt)
               wsumq=int(round(wsum * 1e9)) if math.isfinite(wsum) and wsum < 2 else (10**9 if not math.isfinite(wsum) else 2 * 10**9))
    return rec


def disc_key(c):
    return f"discrete weights={c['wk']} fixed={sorted(c['fixed'])} method={c['method']} d={c['d']} w={c['w']}"


def table_key(c):
    return f"table method={c['method']} weights={c['wk']} fixed={sorted(c['fixed'])}"


# ----------------------------------------------------------------------------------

def selftest(ctx, law_recs, disc_recs, failing, all_recs=()):
    good = [r for r in law_recs if r["id"] not in failing and r["exc"] == ""]
    free_arr = next((r for r in good if r["wk"] == "array" and not r["fixed"] and r["haszeros"]), None)
    fix_kw = next((r for r in good if r["wk"] == "quadratic" and r["fixed"]), None)
    none_ = next((r for r in good if r["wk"] == "none" and r["fixed"]), None)
    dgood = next((r for r in disc_recs if r["id"] not in failing and r["exc"] == "" and r["wk"] == "array"
                  and len(set(r["d"])) >= 3 and 0 in r["d"] and r["d"] != sorted(r["d"]) and len(set(r["w"])) == 2), None)
    if None in (free_arr, fix_kw, none_):
        if ctx.violations:      # nothing accepted to corrupt because the code under test is rejected anyway
            ctx.log("self-test skipped: no accepted law records (violations reported)")
            return
        raise Machinery("self-test: no accepted law records to corrupt")
    muts = []

    def m(base, clause, **upd):
        r = dict(base)
        r.update(upd)
        r["id"] = 9_000_000 + len(muts)
        muts.append((clause, r))

    def withvar(base, tag, **upd):
        return [dict(v, **upd) if v["name"] == tag else v for v in base["variants"]]

    m(fix_kw, "NormalEquations", g=50000)
    m(fix_kw, "NormalEquations", ab=30000)
    m(fix_kw, "NormalEquations", dfix=5)
    m(fix_kw, "KeywordEqualsArray", variants=withvar(fix_kw, "kwarray", ab=20000))
    m(fix_kw, "OrderInvariant", variants=withvar(fix_kw, "perm", dd=1))
    m(fix_kw, "LawCoverage", variants=[v for v in fix_kw["variants"] if v["name"] != "kwarray"])
    m(none_, "NoneEqualsOnes", variants=withvar(none_, "ones", ab=10**9))
    int_ = next((r for r in good if r["isint"] and r["wk"] == "cubic" and r["fixed"]), None)
    if int_ is not None:
        m(int_, "IntegerSameAsFloat", variants=withvar(int_, "intdtype", ab=10**8))
    m(free_arr, "WeightScaleInvariant", variants=withvar(free_arr, "scaled", dd=5000))
    m(free_arr, "WeightScaleInvariant", variants=withvar(free_arr, "scaled", abl=2 * 10**9))
    m(free_arr, "ZeroIgnored", variants=withvar(free_arr, "zeroweights", g=10**6))
    m(free_arr, "DeltaLocalMin", em=-5000)
    m(free_arr, "DeltaLocalMin", hq=free_arr["hq"] + 10)
    m(free_arr, "DeltaLocalMin", emdef=False, epdef=False)
    m(fix_kw, "CaseOrderIndependent", bitsB=fix_kw["bitsB"][:-1] + [fix_kw["bitsB"][-1] ^ 1])
    m(fix_kw, "CaseOrderIndependent", bits0=fix_kw["bits0"][:-1] + [fix_kw["bits0"][-1] ^ 1])
    m(fix_kw, "ObjectHistoryIndependent", hist=[dict(h, bits=h["bits"][:-1] + [h["bits"][-1] ^ 1]) if h["name"] == "refix"
                                                 else h for h in fix_kw["hist"]])
    m(fix_kw, "ObjectHistoryIndependent", hist=[h for h in fix_kw["hist"] if h["name"] != "deepcopy"])
    fh = next((r for r in good if not r["fixed"] and r["wk"] == "none" and 50000 <= r["dq"] <= 5 * 10**7), None)
    if fh is not None:
        m(fh, "FreeDeltaHistory", fhist=[dict(fh["fhist"][0], dd=900000)] + fh["fhist"][1:])
        m(fh, "FreeDeltaHistory", fhist=fh["fhist"][:1])
        m(fh, "FreeDeltaHistory", fhist=[dict(fh["fhist"][0], ep=-50000)] + fh["fhist"][1:])
    dm = next((r for r in all_recs if r.get("kind") == "dominant" and r["id"] not in failing and r["exc"] == ""), None)
    if dm is not None:
        m(dm, "NormalEquations", ab=6000000000 // 1000)           # 0.6 % off the exact solution
        m(dm, "NormalEquations", pos=False)
    zp = next((r for r in all_recs if r.get("kind") == "zeropair" and r["id"] not in failing and r["exc"] == ""), None)
    if zp is not None:
        m(zp, "NormalEquations", ab=170000000)                     # 17 % off the weighted quantile regression
        m(zp, "CaseOrderIndependent", bitsS=zp["bitsS"][:-1] + [zp["bitsS"][-1] ^ 1])
    m(fix_kw, "EarlierFitDoesNotLeak", bitsH=fix_kw["bitsH"][:-1] + [fix_kw["bitsH"][-1] ^ 1])
    m(dict(id=0, kind="table", method="lsq", wk="none", fixedset=[], outcome="ValueError"), "OutcomeTable")
    m(dict(id=0, kind="table", method="wlsq", wk="cubic", fixedset=["alpha"], outcome="fit-free-delta"), "OutcomeTable")
    if dgood is not None:
        m(dgood, "WeightsCoSorted", rw=list(dgood["w"]))                      # weights left in input order
        m(dgood, "PlottingPositions", rpn=[2 * (i + 1) for i in range(len(dgood["d"]))])   # i/n
        nz = sorted(v for v in dgood["d"] if v != 0)
        m(dgood, "PipelineShape", rx=nz, rpn=[2 * i + 1 for i in range(len(nz))], rw=[1] * len(nz))  # zeros removed first
        m(dgood, "SortedStable", rx=list(dgood["d"]))
    res = ctx.validate("Trace_C13", "Trace_C13.cfg", [r for _, r in muts])
    for clause, r in muts:
        if clause not in res.get(r["id"], []):
            raise Machinery(f"self-test: corrupted record did not fail clause {clause}: got {res.get(r['id'])}")
    ctx.log(f"self-test: {len(muts)} corrupted records rejected with the expected clause")


def run(ctx):
    vc = import_virocon()
    ALL_HUGE[0] = not ctx.quick
    ctx.rule = ("TLC-enumerated: (a) every (method, weights kind, fixed set) row of the decision table; (b) every data "
                "vector of length <= 3 (quick) / 4 (thorough) over {0..3} x every weight vector over {1,2} and the "
                "keyword/None weights x delta fixed/free x method; (c) law cases weights kind x delta fixed/free x "
                "method x sample class {ew, weibull, lognormal, uniform, smalldelta, zeros, ties, integers} x n x replicate; a fixed delta "
                "rotates over {0.7, 1.0, 1.6, 2.5, 1e-3, 1e-2, 50, 1e4}; seeded real-valued samples on seeded real-valued "
                "samples in random order. distinct = distinct case key; non-trivial: table rows all; small vectors "
                "with >= 2 distinct values or a zero; law cases whose fit returned finite positive parameters")
    ctx.trusted = ["TLC 1.8 evaluating spec/EwLsqOps.tla",
                   "reference weighted regression: numpy.linalg.lstsq on sqrt(w)-scaled rows, plotting positions and "
                   "stable argsort written out in harness/c13.py (log1p form of -ln(1-p^(1/delta)))",
                   "recording wrapper around the static method ExponentiatedWeibullDistribution._estimate_alpha_beta "
                   "(observes the sorted data, positions and weights handed to the regression)"]
    ctx.assumptions = ["tolerances: 1e-8 relative on (alpha, beta) and the normalised normal equations; free delta "
                       "5e-4 + 1e-4*delta between variants; local-minimum step h = 1e-3*delta + 5e-4 (EwLsqOps.tla)",
                       "OrderInvariant is judged for all array weights, tied observations with different weights "
                       "included (tied observations take their ranks in the order of their weights)",
                       "a free delta can be shown not to be a local minimiser, never proven to be the global one"]
    # ---- M
    ctx.model_check("EwLsq", ctx.pick("MC_EwLsq_quick.cfg", "MC_EwLsq_thorough.cfg"),
                    must_cover=("Dispatch", "Sort", "Weights", "Rank", "DropZeros"), workers=8)
    ctx.model_check("EwLsq", "MC_EwLsq_mut_cosort.cfg", expect_violation="OrderInvariant", workers=4)
    ctx.model_check("EwLsq", "MC_EwLsq_mut_cosort2.cfg", expect_violation="KeywordEqualsArray", workers=4)
    ctx.model_check("EwLsq", "MC_EwLsq_mut_ties.cfg", expect_violation="OrderInvariant", workers=4)
    ctx.model_check("EwLsq", "MC_EwLsq_mut_zeros.cfg", expect_violation="PositionsAfterRanking", workers=4)
    ctx.model_check("EwLsq", "MC_EwLsq_mut_pos.cfg", expect_violation="PositionsAfterRanking", workers=4)
    ctx.model_check("EwLsq", "MC_EwLsq_mut_sharedpos.cfg", expect_violation="LinearisedForOwnDelta", workers=4)
    ctx.model_check("EwLsq", "MC_EwLsq_mut_staledelta.cfg", expect_violation="LinearisedForOwnDelta", workers=4)
    ctx.model_check("EwLsq", "MC_EwLsq_mut_stalepos.cfg", expect_violation="PositionsAfterRanking", workers=4)
    # ---- R
    inputs = ctx.generate("EwLsq", ctx.pick("Gen_EwLsq_quick.cfg", "Gen_EwLsq_thorough.cfg"))
    lawcases = ctx.generate("EwLsqCases", ctx.pick("Gen_EwLsqCases_quick.cfg", "Gen_EwLsqCases_thorough.cfg"))
    table, seen = [], set()
    for c in inputs:                            # one row per (method, weights kind, fixed set)
        k = table_key(c)
        if c["d"] == [1] and k not in seen:
            seen.add(k)
            table.append(c)
    discrete = [c for c in inputs if c["method"] in ("lsq", "wlsq") and c["wk"] not in ("unknown", "scalar", "badshape")
                and set(c["fixed"]) <= {"delta"}]
    zpcases = sorted((c for c in lawcases if c.get("kind") == "zeropair"), key=zp_key)
    domcases = sorted((c for c in lawcases if c.get("kind") == "dominant"), key=dominant_key)
    lawcases = sorted((c for c in lawcases if c.get("kind") not in ("zeropair", "dominant")), key=law_key)
    bits0 = fresh_fits(lawcases, ctx.seed)      # before the first fit in this process
    procs = max(1, min(12, (os.cpu_count() or 2) - 2))
    zp0 = [r if isinstance(r, list) else [] for r in run_fresh(zp_fresh, [(c, ctx.seed) for c in zpcases], procs)]
    # ---- V
    recs, keys, nontriv, replays = [], [], [], []
    rng = np.random.default_rng(ctx.seed + 13)
    xt = 2.0 * rng.weibull(1.5, 60)
    for c in table:
        recs.append(table_record(vc, len(recs) + 1, c, xt))
        keys.append(table_key(c)); nontriv.append(True); replays.append(dict(kind="table", **c))
    disc_recs = []
    with Recorder(vc) as rec_:
        if rec_.ok:
            for c in discrete:
                r = discrete_record(vc, rec_, len(recs) + 1, c)
                recs.append(r); disc_recs.append(r)
                keys.append(disc_key(c)); nontriv.append(len(set(c["d"])) >= 2 or 0 in c["d"])
                replays.append(dict(kind="discrete", **c))
        else:
            ctx.assumptions.append("_estimate_alpha_beta is no longer a static method of the class: the discrete "
                                   "pipeline was judged through the regression laws only (API-level projection)")
    law_recs = []
    for c, b0 in zip(lawcases, bits0):
        r, _ = law_record(vc, len(recs) + 1, c, ctx.seed)
        if not r["exc"]:
            r["bits0"], r["bitsH"] = b0
        recs.append(r); law_recs.append(r)
        keys.append(law_key(c)); nontriv.append(r["exc"] == "" and r["pos"]); replays.append(dict(kind="law", **c))
    zp_recs = []
    for c, b0 in zip(zpcases, zp0):
        r = zp_record(vc, len(recs) + 1, c, ctx.seed, b0)
        recs.append(r); zp_recs.append(r)
        keys.append(zp_key(c)); nontriv.append(r["exc"] == "" and r["pos"]); replays.append(dict(c))
    for c in domcases:
        r = dominant_record(vc, len(recs) + 1, c, ctx.seed)
        recs.append(r)
        keys.append(dominant_key(c)); nontriv.append(r["exc"] == ""); replays.append(dict(c))
    # history: the law fits again in the same process, in another seeded order, each preceded by a fixed-delta
    # least-squares fit of another instance on an equally long sample
    order = np.random.default_rng(ctx.seed + 131).permutation(len(lawcases))
    for j in order:
        r = law_recs[j]
        if r["exc"]:
            continue
        try:
            r["bitsB"] = law_again(vc, lawcases[j], ctx.seed)
        except Exception as e:  # noqa
            r["exc"] = f"history: {type(e).__name__}: {e}"[:200]
    failing = ctx.validate("Trace_C13", "Trace_C13.cfg", recs, chunk=20000)
    for r, k, nt, rp in zip(recs, keys, nontriv, replays):
        ctx.case(k, nt)
        for clause in failing.get(r["id"], []):
            ctx.violation(clause, k, f"record={ {kk: vv for kk, vv in r.items() if kk not in ('id',)} }", replay=rp)
    ctx.log(f"{len(table)} table rows, {len(disc_recs)} small vectors, {len(law_recs)} law cases, {len(zp_recs)} "
            f"equal-delta pairs with different numbers of zeros judged; "
            f"{len(failing)} rejected")
    selftest(ctx, law_recs, disc_recs, failing, recs)
    ctx.exhaustive = True
    ctx.notes.update(table_rows=len(table), small_vectors=len(disc_recs), law_cases=len(law_recs),
                     zero_pairs=len(zp_recs))
    ctx.notes["exhaustive_scope"] = ("the decision table and the small-vector domain are enumerated completely (model and "
                                     "real code); the law cases are seeded samples of a continuous space")
    ctx.sample({"case": replays[len(table) + len(disc_recs) // 2], "record": recs[len(table) + len(disc_recs) // 2]}
               if disc_recs else {"case": replays[0], "record": recs[0]})
    i = next(i for i, r in enumerate(recs) if r["kind"] == "law" and r["wk"] == "array" and not r["fixed"])
    ctx.sample({"case": replays[i], "record": recs[i]})
    ctx.sample({"case": replays[0], "record": recs[0]})


def replay(ctx, case):
    vc = import_virocon()
    c = case["case"]
    kind = c.pop("kind")
    if kind == "table":
        xt = 2.0 * np.random.default_rng(ctx.seed + 13).weibull(1.5, 60)
        r, k = table_record(vc, 1, c, xt), table_key(c)
    elif kind == "dominant":
        r, k = dominant_record(vc, 1, c, ctx.seed), dominant_key(c)
    elif kind == "zeropair":
        b0 = run_fresh(zp_fresh, [(c, ctx.seed)], 1)[0]
        r, k = zp_record(vc, 1, c, ctx.seed, b0 if isinstance(b0, list) else []), zp_key(c)
    elif kind == "discrete":
        with Recorder(vc) as rec_:
            r, k = discrete_record(vc, rec_, 1, c), disc_key(c)
    else:
        b0 = fresh_fits([c], ctx.seed)[0]
        (r, _), k = law_record(vc, 1, c, ctx.seed), law_key(c)
        if not r["exc"]:
            r["bits0"], r["bitsH"] = b0
            r["bitsB"] = law_again(vc, c, ctx.seed)
    failing = ctx.validate("Trace_C13", "Trace_C13.cfg", [r])
    ctx.case(k, True)
    for clause in failing.get(1, []):
        ctx.violation(clause, k, f"record={r}", replay=dict(kind=kind, **c))
