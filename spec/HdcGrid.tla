------------------------------- MODULE HdcGrid -------------------------------
(* The constructor of HighestDensityContour up to the grid, as a state machine:                 *)
(*   New -> CheckGrid (limits: None / length; deltas: None / scalar / iterable length)          *)
(*       -> BuildAxes (per-entry tuple checks, np.arange(min, max + delta, delta))              *)
(* with pc = "error" after a ValueError ("othererror": the EarlyIndexing deviation of HdcGridOps).  TLC enumerates every combination of argument forms    *)
(* (leg M: the invariants below; leg R: every terminal state is emitted as a case that the      *)
(* driver concretises and runs on the real class; Trace_HdcGrid judges the recorded grid).      *)
(* NegativeDefault is the behaviour before D51 (default cell size (hi - lo) * 0.0025 without    *)
(* abs) and must violate DeltasPositive.                                                        *)
EXTENDS HdcGridOps, TLC, Json

CONSTANTS NDims,            \* set of model dimensions to enumerate
          EmitCases,        \* TRUE: print terminal states as JSON
          NegativeDefault   \* mutation: default cell size keeps the sign of hi - lo

VARIABLES nd, outer, lk, dk, pc, limits, deltas, counts
vars == <<nd, outer, lk, dk, pc, limits, deltas, counts>>

(* abstract concrete values: per dimension the limits are (Lo, Hi) lattice units in the order the *)
(* entry kind says; explicit cell size D                                                          *)
Lo == 8
Hi == 40
D == 4
Given(k) == IF k = "desc" THEN <<Hi, Lo>> ELSE <<Lo, Hi>>
(* default limits are (0, q); q < 0 happens for variables with negative quantiles: modelled by   *)
(* the sign of the quantile chosen in Init                                                       *)
VARIABLE qsign
allvars == <<vars, qsign>>

Init == /\ nd \in NDims
        /\ outer \in OuterKinds
        /\ dk \in DeltaKinds
        /\ lk \in [1..nd -> LimitKinds]
        /\ (outer # "given" => lk = [i \in 1..nd |-> "asc"])
        /\ qsign \in [1..nd -> {1, -1}]
        /\ (outer # "none" => qsign = [i \in 1..nd |-> 1])
        /\ (nd = 3 => dk # "none")     \* 401^3 default cells are not enumerated (cost only)
        /\ pc = "new" /\ limits = <<>> /\ deltas = <<>> /\ counts = <<>>

CheckGrid ==
    /\ pc = "new"
    /\ IF outer = "wronglen" \/ dk = "wronglen"
       THEN pc' = "error" /\ UNCHANGED <<limits, deltas>>
       ELSE IF EarlyIndexing(outer, lk, dk)
       THEN pc' = "othererror" /\ UNCHANGED <<limits, deltas>>
       ELSE /\ limits' = [i \in 1..nd |-> IF outer = "none" THEN <<0, qsign[i] * Hi>> ELSE Given(lk[i])]
            /\ deltas' = [i \in 1..nd |->
                            IF dk = "none"
                            THEN (IF NegativeDefault THEN limits'[i][2] - limits'[i][1]
                                  ELSE DefaultDeltaTimes400(limits'[i][1], limits'[i][2]))   \* times 400
                            ELSE D]
            /\ pc' = "checked"
    /\ UNCHANGED <<nd, outer, lk, dk, counts, qsign>>

BuildAxes ==
    /\ pc = "checked"
    /\ IF outer = "given" /\ \E i \in 1..nd : lk[i] \in BadLimitKinds
       THEN pc' = "error" /\ UNCHANGED counts
       ELSE /\ counts' = [i \in 1..nd |->
                            IF dk = "none" THEN 401    \* (range + range/400) / (range/400)
                            ELSE AxisCount(limits[i][1], limits[i][2], deltas[i])]
            /\ pc' = "built"
    /\ UNCHANGED <<nd, outer, lk, dk, limits, deltas, qsign>>

Next == CheckGrid \/ BuildAxes
Spec == Init /\ [][Next]_allvars

(* ---- invariants ---- *)
ErrorIffMalformed == (pc = "error" => Outcome(outer, lk, dk) = "ValueError")
                     /\ (pc = "othererror" => Outcome(outer, lk, dk) = "OtherError")
                     /\ (pc = "built" => Outcome(outer, lk, dk) = "ok")
DeltasPositive == pc \in {"checked", "built"} => \A i \in 1..nd : deltas[i] > 0
AxesCover == pc = "built" /\ dk # "none" =>
               \A i \in 1..nd : /\ counts[i] >= 1
                                /\ Covers(limits[i][1], limits[i][2], deltas[i])
                                /\ Centre(limits[i][1], limits[i][2], deltas[i], counts[i] - 1) < Max2(limits[i][1], limits[i][2]) + deltas[i]

Terminal == pc \in {"error", "othererror", "built"}
Emit == Terminal /\ EmitCases =>
          PrintT(<<"BEH", ToJson([nd |-> nd, outer |-> outer, lk |-> lk, dk |-> dk,
                                   qneg |-> [i \in 1..nd |-> qsign[i] < 0],
                                   outcome |-> IF pc = "error" THEN "ValueError" ELSE IF pc = "othererror" THEN "OtherError" ELSE "ok"])>>)
=============================================================================
