SPECIFICATION Spec
CONSTANTS MaxN = 3  K = 2  Rows = 2  Shapes = {1,2,3,4}
  Modes = {"sample"}  Mut = "constshared"  Admissible = TRUE  EmitCfg = FALSE
CHECK_DEADLOCK FALSE
INVARIANT InverseRosenblatt
INVARIANT ReadsOnlyComputed
INVARIANT MapsIncreasing
