"""Worker of the top-level session check (spec/Virocon.tla, harness/ext_virocon.py).

Run as a FRESH process per task (`python -m harness.virocon_worker < task.json > result.json`) so that no
module-level or class-level state survives from one session to the next:

  mode "session": execute the operations of one TLC-generated session in order on ONE model object
                  (plus its TransformedModel wrapper and its contour objects); after every step report
                  the digest of what the step returned, of the coordinates of every contour alive and of the
                  model's parameters.
  mode "canon"  : for every observable step i (listed with the BASIS the specification assigns to it) build a
                  FRESH model, apply only the first `basis` mutators of the session and compute that one
                  operation; steps are served in reverse order.

Only measuring happens here; which basis a step has is decided by the specification, whether the two digests
must agree by spec/Trace_Virocon.tla.
"""
import hashlib
import json
import os
import sys
import warnings

import numpy as np

warnings.filterwarnings("ignore")
os.environ.setdefault("MPLBACKEND", "Agg")


def digest(obj):
    h = hashlib.sha1()

    def feed(o):
        if isinstance(o, BaseException):
            h.update(b"EXC" + type(o).__name__.encode())
        elif isinstance(o, np.ndarray):
            a = np.ascontiguousarray(o)
            h.update(str(a.dtype).encode() + str(a.shape).encode() + a.tobytes())
        elif isinstance(o, (list, tuple)):
            h.update(b"L%d" % len(o))
            for v in o:
                feed(v)
        elif isinstance(o, dict):
            h.update(b"D%d" % len(o))
            for k in o:
                h.update(str(k).encode())
                feed(o[k])
        elif isinstance(o, (float, np.floating)):
            h.update(b"f" + float(o).hex().encode())
        elif o is None or isinstance(o, (int, str, bool, np.integer)):
            h.update(repr(o).encode())
        elif hasattr(o, "values") and hasattr(o, "index"):  # pandas
            feed(np.asarray(o.values))
        else:
            h.update(b"R" + repr(o).encode())
    feed(obj)
    return h.hexdigest()


class World:
    def __init__(self, desc, workdir):
        import virocon
        import virocon.predefined as pre
        self.vc = virocon
        self.desc = desc
        self.workdir = workdir
        raw = virocon.read_ec_benchmark_dataset(os.path.join(os.environ["VIROCON_REPO"], "datasets",
                                                             "ec-benchmark_dataset_A_1year.txt")).values
        *_, self.tr = pre.get_Windmeier_EW_Hs_S()
        if desc == "dnvgl":
            self.dd, self.fd, self.sem = pre.get_DNVGL_Hs_Tz()
            base = raw
        elif desc == "omae":
            self.dd, self.fd, self.sem = pre.get_OMAE2020_Hs_Tz()
            base = raw
        elif desc == "omae_vhs":      # a dependence function that takes another one as parameter (alpha of beta)
            self.dd, self.fd, self.sem = pre.get_OMAE2020_V_Hs()
            base = virocon.read_ec_benchmark_dataset(os.path.join(os.environ["VIROCON_REPO"], "datasets",
                                                                  "ec-benchmark_dataset_D_1year.txt")).values
        elif desc == "windmeier":
            self.dd, self.fd, self.sem, _ = pre.get_Windmeier_EW_Hs_S()
            base = self.tr["transform"](raw)
        else:
            raise ValueError(desc)
        self.data = {"d1": base[::5].copy(), "d2": base[2::7].copy()}
        q = np.quantile(base, [0.3, 0.6, 0.9], axis=0)
        self.X = np.ascontiguousarray(q)                                  # 3 points in the space of the model
        self.XT = np.ascontiguousarray(self.tr["inverse"](q))              # the same points in the wrapper's space
        self.lim = [(float(np.quantile(base[:, j], 0.001)) * 0.5, float(base[:, j].max()) * 1.3) for j in range(2)]
        self.deltas = [(hi - lo) / 40 for lo, hi in self.lim]
        self.model = None
        self.tm = None
        self.contours = []

    # ---- construction and mutators
    def new(self):
        self.model = self.vc.GlobalHierarchicalModel(self.dd)

    def mutate(self, m):
        model = self.model
        if m in ("fit_d1", "fit_d2"):
            model.fit(self.data[m[4:]], self.fd)
        elif m == "set0":
            d = model.distributions[0]
            name = list(d.parameters)[0]
            setattr(d, name, float(getattr(d, name)) * 1.1 + 0.05)
        elif m == "setdep":
            cd = model.distributions[1]
            name = sorted(cd.conditional_parameters)[0]
            dep = cd.conditional_parameters[name]
            k = list(dep.parameters)[0]
            dep.parameters[k] = float(dep.parameters[k]) * 1.05 + 0.01
        else:
            raise ValueError(m)

    def wrap(self):
        self.tm = self.vc.TransformedModel(self.model, self.tr["transform"], self.tr["inverse"], self.tr["jacobian"],
                                           precision_factor=0.1, random_state=5)

    # ---- observables (the global RNG is an input: it is set before every one of them)
    def evaluate(self, kind):
        m, X = self.model, self.X
        if kind == "pdf":
            return m.pdf(X.copy())
        if kind == "icdf":
            p = np.array([0.1, 0.5, 0.99])
            return [m.distributions[0].icdf(p), m.distributions[1].icdf(p, given=X[:, 0].copy())]
        if kind == "sample":
            return m.draw_sample(40, random_state=7)
        if kind == "marginal":
            return [m.marginal_pdf(X[:, 0].copy(), 0), m.marginal_icdf(np.array([0.5, 0.9]), 1, precision_factor=0.1)]
        if kind == "condcdf":
            return [m.conditional_cdf(X[:, 1].copy(), 1, X[:, 0].copy()), m.conditional_icdf(np.array([0.2, 0.7, 0.95]), 1, X[:, 0].copy())]
        raise ValueError(kind)

    def contour(self, kind):
        vc, m = self.vc, self.model
        if kind == "iform":
            return vc.IFORMContour(m, 0.05, n_points=24)
        if kind == "isorm":
            return vc.ISORMContour(m, 0.05, n_points=24)
        if kind == "hdc":
            return vc.HighestDensityContour(m, 0.1, limits=self.lim, deltas=self.deltas)
        S = m.draw_sample(3000, random_state=11)
        if kind == "ds":
            return vc.DirectSamplingContour(m, 0.05, sample=S, deg_step=30)
        if kind == "and":
            return vc.AndContour(m, 0.05, sample=S, deg_step=30, allowed_error=0.05)
        if kind == "or":
            return vc.OrContour(m, 0.05, sample=S, deg_step=30, allowed_error=0.05)
        raise ValueError(kind)

    def post(self, kind, c, tag):
        vc = self.vc
        if kind == "coords":
            return c.coordinates
        if kind == "design":
            return vc.calculate_design_conditions(c, steps=4)
        if kind == "save":
            path = os.path.join(self.workdir, f"c_{os.getpid()}_{tag}.txt")
            vc.save_contour_coordinates(c, path, self.sem)
            with open(path) as f:
                txt = f.read()
            os.remove(path)
            return txt
        if kind == "plot":
            import matplotlib
            matplotlib.use("Agg")
            import matplotlib.pyplot as plt
            fig, ax = plt.subplots()
            try:
                vc.plot_2D_contour(c, semantics=self.sem, ax=ax)
                return [np.asarray(ln.get_xydata()) for ln in ax.get_lines()] + [ax.get_xlabel(), ax.get_ylabel()]
            finally:
                plt.close(fig)
        raise ValueError(kind)

    def tmeval(self, kind):
        tm = self.tm
        if kind == "tpdf":
            return tm.pdf(self.XT.copy())
        if kind == "tecdf":
            return tm.empirical_cdf(self.XT.copy())
        if kind == "tsample":
            return tm.draw_sample(20, random_state=3)
        raise ValueError(kind)

    def params(self):
        out = []
        for d in self.model.distributions:
            if hasattr(d, "conditional_parameters"):
                out.append({k: dict(v.parameters) for k, v in sorted(d.conditional_parameters.items())})
                out.append(dict(d.fixed_parameters))
            else:
                out.append(dict(d.parameters))
        return out


def guarded(f, *a):
    np.random.seed(20240229)
    try:
        return f(*a)
    except Exception as e:  # an exception is an observation like any other
        return e


def coords_of(c):
    return c if isinstance(c, BaseException) else c.coordinates


def run_session(task):
    w = World(task["desc"], task["workdir"])
    steps = []
    for i, o in enumerate(task["ops"]):
        op, kind, arg = o["op"], o["kind"], o["arg"]
        obs = None
        if op == "new":
            w.new()
        elif op == "mut":
            r = guarded(w.mutate, kind)
            obs = digest(r) if isinstance(r, BaseException) else None
        elif op == "wrap":
            w.wrap()
        elif op == "eval":
            obs = digest(guarded(w.evaluate, kind))
        elif op == "contour":
            c = guarded(w.contour, kind)
            w.contours.append(c)
            obs = digest(coords_of(c))
        elif op == "post":
            c = w.contours[arg - 1]
            obs = digest(c if isinstance(c, BaseException) else guarded(w.post, kind, c, i))
        elif op == "tm":
            obs = digest(guarded(w.tmeval, kind))
        steps.append(dict(obs=obs, snap=[digest(coords_of(c)) for c in w.contours], pfp=digest(w.params())))
    return steps


def run_canon(task):
    ops = task["ops"]
    muts = [o["kind"] for o in ops if o["op"] == "mut"]
    out = {}
    for item in reversed(task["want"]):
        i, basis = item["i"], item["basis"]
        o = ops[i]
        w = World(task["desc"], task["workdir"])
        w.new()
        failed = None
        for m in muts[:basis]:
            r = guarded(w.mutate, m)
            if isinstance(r, BaseException):
                failed = r
        if o["op"] == "eval":
            r = guarded(w.evaluate, o["kind"])
        elif o["op"] == "contour":
            r = coords_of(guarded(w.contour, o["kind"]))
        elif o["op"] == "post":
            c = guarded(w.contour, item["ckind"])
            r = c if isinstance(c, BaseException) else guarded(w.post, o["kind"], c, i)
        elif o["op"] == "tm":
            w.wrap()
            r = guarded(w.tmeval, o["kind"])
        else:
            raise ValueError(o)
        out[str(i)] = digest(r)
    return out


def main():
    task = json.load(sys.stdin)
    res = run_session(task) if task["mode"] == "session" else run_canon(task)
    json.dump(res, sys.stdout)


if __name__ == "__main__":
    main()
