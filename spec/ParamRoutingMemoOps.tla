------------------------- MODULE ParamRoutingMemoOps -------------------------
(* The histories of ParamRoutingMemo.tla as a closed-form set, shared with Trace_C08      *)
(* (coverage of the replayed histories is asserted by TLC).  A step is <<"E", g>>          *)
(* (evaluate at conditioning value g = 1, 2), <<"S", level>> (assign new coefficients to     *)
(* the dependence function of that level) or <<"F", innermost level>> (fit it).             *)
EXTENDS Integers, Sequences, FiniteSets

MemoAlphabet(depth) ==
    {<<"E", 1>>, <<"E", 2>>, <<"F", depth + 1>>} \cup {<<"S", lev>> : lev \in 1..(depth + 1)}
StepName(st) == IF st[1] = "S" THEN (CASE st[2] = 1 -> "S1" [] st[2] = 2 -> "S2" [] st[2] = 3 -> "S3")
                ELSE IF st[1] = "E" THEN (IF st[2] = 1 THEN "E1" ELSE "E2") ELSE "F"
(* every sequence of 1..maxlen steps that ends with an evaluation *)
MemoHistories(depth, maxlen) ==
    UNION {{s \in [1..n -> MemoAlphabet(depth)] : s[n][1] = "E"} : n \in 1..maxlen}
MemoHistoryNames(s) == [i \in 1..Len(s) |-> StepName(s[i])]
MemoHistoryCases(maxlen) ==
    UNION {{<<d, MemoHistoryNames(s)>> : s \in MemoHistories(d, maxlen)} : d \in {1, 2}}
=============================================================================
