SPECIFICATION Spec
CONSTANTS NRows = 4  MaxV = 3  Upw = 2  MinPts = 1  NDim = 2  MaskSpace = "sorted"
CHECK_DEADLOCK FALSE
INVARIANT IntervalOwnData
INVARIANT KeptExactly
INVARIANT DepFitInputs
INVARIANT OptionsPerDim
