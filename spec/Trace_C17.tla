----------------------------- MODULE Trace_C17 -----------------------------
(* Trace validation for C17.  Record kinds:                                              *)
(*  "isect"  one real call intersection(p, q) on integer polylines (lattice cases emitted *)
(*           by IntersectGen, and random polylines on 0..100); ox, oy = returned points   *)
(*           mapped back to lattice units, fixed point 1e-6.                              *)
(*  "dcl"    one real call calculate_design_conditions on a star-shaped lattice polygon   *)
(*           emitted by DesignCond (vertices and abscissae are twice the real values);    *)
(*           rx = returned abscissae (lattice integers), ry = ordinates, fixed point 1e-6 *)
(*           in lattice units; xexact = every returned abscissa is bitwise a requested    *)
(*           one.  rx2 / ry2 = the call on the exchanged polygon with swap_axis = False.  *)
(*  "dcf"    the same on a float polygon (contours of random models, random star-shaped   *)
(*           polygons): everything fixed point (scale chosen per record); hits[k] = the   *)
(*           ordinates of all polygon edges spanning abscissa xs[k], interpolated by the  *)
(*           driver; for steps = None / int the abscissae are taken from the result.      *)
(*  "cover"  the coordinate dtypes (IntersectOps!CoordTypes) of the typed "isect" / "dcf"  *)
(*           executions of this run (the records themselves are judged like all others:    *)
(*           the expectation never depends on the dtype)                                    *)
EXTENDS IntersectOps, DesignCondOps, Json, IOUtils, TLC

TraceLog == ndJsonDeserialize(IOEnv.TRACE_FILE)
VARIABLE l

(* Tolerance in units of 1e-6 (lattice cases) resp. of the record's scale: 1 for the     *)
(* rounding of the observation, 1 for the floor in RatQ6 / the driver's interpolation;    *)
(* the 4x4 solve itself is accurate to ~1e-15 relative.  A wrong branch (min for max),    *)
(* a missed crossing or exchanged axes move a value by lattice units.                     *)
Tol == 2

---------------------------------------------------------------------------
(* intersection routine *)
Pt(s, k) == <<s[k][1], s[k][2]>>
Poly(s) == [k \in 1..Len(s) |-> Pt(s, k)]

(* no two segments on one line (then the singular 4x4 system has no defined answer) *)
NoCollinearPair(p, q) ==
    \A i \in 1..NSeg(p) : \A j \in 1..NSeg(q) :
       ~(Den(p[i], p[i + 1], q[j], q[j + 1]) = 0 /\ Cross(p[i], p[i + 1], q[j]) = 0)
(* closed parameter ranges: every pair of non-parallel segments with a common point *)
TouchPairs(p, q) ==
    {ij \in (1..NSeg(p)) \X (1..NSeg(q)) :
        LET a == p[ij[1]] b == p[ij[1] + 1] c == q[ij[2]] d == q[ij[2] + 1] dn == Den(a, b, c, d)
        IN dn # 0 /\ InUnit(TNum(a, b, c, d), dn) /\ InUnit(UNum(a, b, c, d), dn)}
TouchPoints(p, q) ==
    LET prs == SeqOfSet(TouchPairs(p, q))
    IN [k \in 1..Len(prs) |-> CrossPoint(p[prs[k][1]], p[prs[k][1] + 1], q[prs[k][2]], q[prs[k][2] + 1])]

(* bag comparison that does not multiply two numerators (coordinates up to 100) *)
SameQ(e, f) == /\ Within(RatQ6(e[1], e[3]), RatQ6(f[1], f[3]), Tol + 1)
               /\ Within(RatQ6(e[2], e[3]), RatQ6(f[2], f[3]), Tol + 1)
BagOk(oxs, oys, exp) ==
    /\ Len(oxs) = Len(exp) /\ Len(oys) = Len(exp)
    /\ \A k \in 1..Len(exp) :
         Cardinality({m \in 1..Len(oxs) : PointMatches(oxs[m], oys[m], exp[k], Tol)})
           = Cardinality({m \in 1..Len(exp) : SameQ(exp[m], exp[k])})

IsectClauses(r) ==
  IF r.exc # "" THEN << <<"NoException", FALSE>> >>
  ELSE LET p == Poly(r.p) q == Poly(r.q) gp == GeneralPosition(p, q) IN <<
    <<"ExactlyTheCrossings", gp => BagOk(r.ox, r.oy, ExpectedPoints(p, q))>>,
    (* outside general position, on the small lattice only (there the float solve is exact) *)
    <<"ClosedRange", (~gp /\ r.exact /\ NoCollinearPair(p, q)) => BagOk(r.ox, r.oy, TouchPoints(p, q))>>
  >>

---------------------------------------------------------------------------
(* design conditions, lattice form.                                                       *)
(* An abscissa that equals the abscissa of a vertex is judged by clauses of its own       *)
(* (...AtVertex): there the probe meets the polygon in a vertex, i.e. at the END of the    *)
(* parameter range of two edges, and whether the real routine reports it depends on the    *)
(* rounding of its 4x4 solve; everywhere else the probe crosses edges in their interior.   *)
IsVertexAbscissa(T, x) == \E i \in 1..Len(T) : T[i][1] = x
IdxOf(rx, x) == CHOOSE m \in 1..Len(rx) : rx[m] = x
Returned(rx, x) == \E m \in 1..Len(rx) : rx[m] = x
(* rx is a subsequence of xs (xs has no repetitions in the lattice cases): same order *)
Subsequence(rx, xs) ==
    /\ \A m \in 1..Len(rx) : \E k \in 1..Len(xs) : xs[k] = rx[m]
    /\ \A m \in 1..(Len(rx) - 1) :
          (CHOOSE k \in 1..Len(xs) : xs[k] = rx[m]) < (CHOOSE k \in 1..Len(xs) : xs[k] = rx[m + 1])
RowRight(r, T, x) == Returned(r.rx, x) /\
    LET mx == MaxRat(Hits(T, x)) IN Within(r.ry[IdxOf(r.rx, x)], RatQ6(mx[1], mx[2]), Tol + 1)
RowOnContour(r, T, m) ==
    \E h \in Hits(T, r.rx[m]) : Within(r.ry[m], RatQ6(h[1], h[2]), Tol + 1)
SameObserved(rx, ry, sx, sy) ==
    /\ Len(rx) = Len(sx) /\ Len(ry) = Len(sy) /\ Len(rx) = Len(ry)
    /\ \A k \in 1..Len(rx) : rx[k] = sx[k] /\ Within(ry[k], sy[k], Tol)

DclClauses(r) ==
  IF r.exc # "" THEN << <<"NoException", FALSE>> >>
  ELSE LET P == Poly(r.poly) T == IF r.swap THEN SwapXY(P) ELSE P
           X == {r.xs[k] : k \in 1..Len(r.xs)} IN <<
    <<"RequestedAbscissa", r.xexact /\ Len(r.rx) = Len(r.ry) /\ Subsequence(r.rx, r.xs)>>,
    <<"Omission", \A x \in X : Hits(T, x) = {} => ~Returned(r.rx, x)>>,
    <<"OnContour", \A m \in 1..Len(r.rx) : RowOnContour(r, T, m)>>,
    <<"Design", \A x \in X : (Hits(T, x) # {} /\ ~IsVertexAbscissa(T, x)) => RowRight(r, T, x)>>,
    <<"DesignAtVertex", \A x \in X : IsVertexAbscissa(T, x) => RowRight(r, T, x)>>,
    <<"SwapIsExchange", r.swap => SameObserved(r.rx, r.ry, r.rx2, r.ry2)>>
  >>

---------------------------------------------------------------------------
(* design conditions, float form.  atv[k] = abscissa k is bitwise the abscissa of a vertex *)
NX(r) == Len(r.xs)
(* returned rows refer to requested abscissae, in the requested order *)
RkOk(r) == /\ Len(r.rk) = Len(r.ry) /\ Len(r.rx) = Len(r.ry)
           /\ \A m \in 1..Len(r.rk) : r.rk[m] \in 1..NX(r) /\ r.rx[m] = r.xs[r.rk[m]]
           /\ \A m \in 1..(Len(r.rk) - 1) : r.rk[m] < r.rk[m + 1]
RetIdx(r) == {r.rk[m] : m \in 1..Len(r.rk)}
RowOf(r, k) == CHOOSE m \in 1..Len(r.rk) : r.rk[m] = k
(* hits[k]: ordinates of the well-conditioned edges at abscissa k; steep[k]: ordinate intervals *)
(* of the (nearly) vertical edges there, on which the crossing is any point within round-off:  *)
(* the row must not be below the largest well-conditioned hit (nor below every steep edge)     *)
(* and not above everything                                                                    *)
Meets(r, k) == r.hits[k] # <<>> \/ r.steep[k] # <<>>
SteepLo(r, k) == [h \in 1..Len(r.steep[k]) |-> r.steep[k][h][1]]
SteepHi(r, k) == [h \in 1..Len(r.steep[k]) |-> r.steep[k][h][2]]
LowestTop(r, k) == IF r.hits[k] # <<>> THEN MaxSeq(r.hits[k]) ELSE MaxSeq(SteepLo(r, k))
HighestTop(r, k) == MaxSeq(r.hits[k] \o SteepHi(r, k))
TopAt(r, k) == k \in RetIdx(r) /\ LowestTop(r, k) - Tol <= r.ry[RowOf(r, k)]
                               /\ r.ry[RowOf(r, k)] <= HighestTop(r, k) + Tol
(* on the contour: at the ordinate of a spanning edge, or anywhere on a (nearly) vertical  *)
(* edge at that abscissa (steep[k] lists their ordinate intervals)                          *)
OnAt(r, m) == \/ \E h \in 1..Len(r.hits[r.rk[m]]) : Within(r.ry[m], r.hits[r.rk[m]][h], Tol)
              \/ \E h \in 1..Len(r.steep[r.rk[m]]) :
                    r.steep[r.rk[m]][h][1] - Tol <= r.ry[m] /\ r.ry[m] <= r.steep[r.rk[m]][h][2] + Tol
(* default abscissae: float linspace against integer arithmetic on the rounded extent:   *)
(* rounding of min/max (1), floor of range/10000 (1), two floors in MulDiv (2), row (1)   *)
SpanOk(r) == /\ Len(r.rx) = r.nsteps
             /\ \A m \in 1..Len(r.rx) : Within(r.rx[m], SpanQ(r.xmin, r.xmax, r.nsteps, m - 1), 5)

DcfClauses(r) ==
  IF r.exc # "" THEN << <<"NoException", FALSE>> >>
  ELSE IF ~(r.shape2 /\ RkOk(r)) THEN << <<"RequestedAbscissa", FALSE>> >>
  ELSE <<
    <<"Omission", \A k \in 1..NX(r) : ~Meets(r, k) => k \notin RetIdx(r)>>,
    <<"OnContour", \A m \in 1..Len(r.rk) : OnAt(r, m)>>,
    <<"TopOrdinate", \A k \in 1..NX(r) : (Meets(r, k) /\ ~r.atv[k]) => TopAt(r, k)>>,
    <<"TopAtVertex", \A k \in 1..NX(r) : (Meets(r, k) /\ r.atv[k]) => TopAt(r, k)>>,
    <<"DefaultSpan", r.steps # "list" => SpanOk(r)>>,
    <<"SwapIsExchange", r.swap => SameObserved(r.rx, r.ry, r.rx2, r.ry2)>>
  >>

CoverClauses(r) == << <<"CoordTypesCovered", Range(r.isect) = CoordTypes /\ Range(r.dcf) = CoordTypes>> >>

Clauses(r) == CASE r.kind = "isect" -> IsectClauses(r)
                [] r.kind = "cover" -> CoverClauses(r)
                [] r.kind = "dcl" -> DclClauses(r)
                [] OTHER -> DcfClauses(r)
Verdict(r) == Failing(Clauses(r))

Init == l = 1
Next == /\ l <= Len(TraceLog)
        /\ LET r == TraceLog[l] v == Verdict(r) IN
             IF v = <<>> THEN TRUE ELSE PrintT(<<"VERDICT", r.id, v>>)
        /\ l' = l + 1
Spec == Init /\ [][Next]_l
Consumed == l = Len(TraceLog) + 1 => PrintT(<<"CONSUMED", l - 1>>)
=============================================================================
