SPECIFICATION GenSpec
CONSTANTS G = 4  MaxV = 4  XLeft = 0  YDown = 0  UseMin = FALSE  MaxHits = 99  Algo = "edges"  BothOrders = TRUE
CHECK_DEADLOCK FALSE
INVARIANT EmitCase
