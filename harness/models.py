"""Random admissible GlobalHierarchicalModels over the shipped families (shared helper).

    model = build_model(vc, rng, n_dim, cond, families, shapes=None)

* vc        the imported virocon package (harness.common.import_virocon())
* rng       numpy Generator (all randomness comes from it -> a case is replayable by seed)
* cond      list of length n_dim: None or the 0-based index of the conditioning dimension
* families  list of family names (see FAMILIES), one per dimension
* shapes    optional list of dependence shape classes, one per dimension (ignored for
            unconditional dimensions):
              1 "const"  every parameter is a constant function a + 0*x of the given
              2 "loc"    the location/scale-like parameter varies strongly with the given
                         (linear / power), the others are fixed or constant
              3 "shape"  every parameter except the location/scale-like one varies
                         (exp / asymptotic / logistic / power)
              4 "all"    every parameter varies
            default: random in 2..4

The model gets an attribute `_verif` (plain dict: families, cond, shapes, per dimension the
parameter values or the dependence functions as (kind, coefficients)) and `_verif_dep[i][par]`
(the python callables), so that a driver can evaluate parameters itself.

Dependence functions map EVERY real given to an admissible parameter value (the given may be
negative for Normal / von Mises parents).  describe() writes constants as a + 0*x (vectorised);
constant_style() rewrites them as scalar-returning callables (`lambda x, a: a`) or as fixed
parameters of the conditional distribution -- both are legal and must still give one independent
draw per row (C07).
"""
import numpy as np

FAMILIES = ["weibull", "lognormal", "normal", "expweibull", "gengamma", "vonmises", "lognormfit"]
NONNEG = ["weibull", "lognormal", "expweibull", "gengamma", "lognormfit"]

# parameter kinds: "scale" positive, may grow with the given; "shape" positive and kept in a
# bounded range; "loc" real; "logloc" real, at most logarithmic growth; "loc+" non-negative location
SPEC = {
    "weibull": [("alpha", "scale", 0.6, 3.0), ("beta", "shape", 0.9, 3.0), ("gamma", "loc+", 0.0, 1.5)],
    "lognormal": [("mu", "logloc", -0.5, 1.5), ("sigma", "shape", 0.15, 0.6)],
    "normal": [("mu", "loc", -2.0, 3.0), ("sigma", "scale", 0.4, 2.0)],
    "expweibull": [("alpha", "scale", 0.6, 3.0), ("beta", "shape", 0.9, 2.5), ("delta", "shape", 0.6, 3.0)],
    "gengamma": [("m", "shape", 0.7, 3.0), ("c", "shape", 0.8, 2.5), ("lambda_", "shape", 0.4, 2.0)],
    "vonmises": [("kappa", "shape", 0.4, 4.0), ("mu", "loc", -1.0, 1.0)],
    "lognormfit": [("mu_norm", "scale", 1.0, 4.0), ("sigma_norm", "shape", 0.4, 1.5)],
}
# the parameter that carries the "location/scale-like" dependence of shape class 2
MAIN = {"weibull": "gamma", "lognormal": "mu", "normal": "mu", "expweibull": "alpha",
        "gengamma": "lambda_", "vonmises": "mu", "lognormfit": "mu_norm"}


def dist_class(vc, fam):
    import virocon.distributions as vd
    return {"weibull": vd.WeibullDistribution, "lognormal": vd.LogNormalDistribution,
            "normal": vd.NormalDistribution, "expweibull": vd.ExponentiatedWeibullDistribution,
            "gengamma": vd.GeneralizedGammaDistribution, "vonmises": vd.VonMisesDistribution,
            "lognormfit": vd.LogNormalNormFitDistribution}[fam]


# ---- dependence function shapes (all vectorised, all total on the reals) -------------------

def _const(x, a=1.0):
    return a + 0.0 * np.asarray(x, dtype=float)


def _scalar(x, a=1.0):
    """ignores the given and returns a python scalar (legal: `lambda x, a=2.0: a`)"""
    return float(a)


def _linear(x, a=0.0, b=1.0):
    return a + b * np.asarray(x, dtype=float)


def _abslinear(x, a=1.0, b=1.0):
    return a + b * np.abs(np.asarray(x, dtype=float))


def _power3(x, a=1.0, b=1.0, c=0.5):
    return a + b * np.abs(np.asarray(x, dtype=float)) ** c


def _exp3(x, a=1.0, b=1.0, c=1.0):
    return a + b * np.exp(-c * np.abs(np.asarray(x, dtype=float)))


def _asym3(x, a=1.0, b=1.0, c=1.0):
    return a + b / (1.0 + c * np.abs(np.asarray(x, dtype=float)))


def _logistic3(x, a=1.0, b=1.0, c=1.0):
    return a + b / (1.0 + np.exp(-c * np.asarray(x, dtype=float)))


def _loglinear(x, a=0.0, b=1.0):
    return a + b * np.log1p(np.abs(np.asarray(x, dtype=float)))


def _tanh3(x, a=0.0, b=1.0, c=1.0):
    return a + b * np.tanh(c * np.asarray(x, dtype=float))


FUNCS = {"const": _const, "scalar": _scalar, "linear": _linear, "abslinear": _abslinear, "power3": _power3,
         "exp3": _exp3, "asym3": _asym3, "logistic3": _logistic3, "tanh3": _tanh3, "loglinear": _loglinear}


def make_callable(kind, coef):
    f = FUNCS[kind]
    coef = tuple(float(c) for c in coef)
    return lambda x: f(x, *coef)


def _dep(vc, kind, coef):
    """A virocon DependenceFunction whose parameters are set to coef (defaults of a closure)."""
    f = FUNCS[kind]
    names = "abc"[:len(coef)]
    src = "def g(x, " + ", ".join(f"{n}={float(c)!r}" for n, c in zip(names, coef)) + "):\n" \
          "    return f(x, " + ", ".join(names) + ")\n"
    ns = {"f": f}
    exec(src, ns)
    g = ns["g"]
    g.__name__ = kind
    return vc.DependenceFunction(g)


def _vary(rng, pkind, lo, hi, strong):
    """(kind, coef) of a dependence function with values in the admissible set of pkind."""
    u = rng.uniform
    if pkind == "loc":
        if strong or rng.random() < 0.5:
            return "linear", (u(lo, hi), rng.choice([-1, 1]) * u(0.15, 0.45))
        return "tanh3", (u(lo, hi), rng.choice([-1, 1]) * u(0.3, 1.0), u(0.3, 1.5))
    if pkind == "logloc":   # log-normal mu: median grows like a power of the given (no overflow in chains)
        if strong or rng.random() < 0.5:
            return "loglinear", (u(lo, hi), rng.choice([-1, 1]) * u(0.3, 0.9))
        return "tanh3", (u(lo, hi), rng.choice([-1, 1]) * u(0.3, 1.0), u(0.3, 1.5))
    if pkind == "loc+":
        return ("abslinear", (u(lo, hi), u(0.3, 0.9))) if strong or rng.random() < 0.5 else \
               ("power3", (u(lo, hi), u(0.3, 0.9), u(0.4, 1.0)))
    if pkind == "scale":
        k = rng.integers(0, 3)
        if k == 0:
            return "abslinear", (u(lo, lo + 0.5 * (hi - lo)), u(0.15, 0.5))
        if k == 1:
            return "power3", (u(lo, lo + 0.5 * (hi - lo)), u(0.2, 0.8), u(0.4, 1.0))
        return "asym3", (u(lo, lo + 0.5 * (hi - lo)), u(0.3, 0.5 * (hi - lo) + 0.3), u(0.2, 2.0))
    # bounded shape parameter: a in [lo, mid], a + b <= hi
    a = u(lo, lo + 0.5 * (hi - lo))
    b = u(0.3 * (hi - a), hi - a)
    k = rng.integers(0, 3)
    return [("exp3", (a, b, u(0.2, 2.0))), ("asym3", (a, b, u(0.2, 2.0))),
            ("logistic3", (a, b, rng.choice([-1, 1]) * u(0.3, 2.0)))][k]


# Quadrature-friendly parameter ranges, used where the code under test and the reference both rely
# on adaptive quadrature: (a) bounded densities only (no integrable singularity at the lower end of
# the support); (b) no location-like parameter that GROWS with the given (Weibull gamma, the mean
# of LogNormalNormFit): a conditional density whose bulk is narrow relative to its distance from 0
# is invisible to scipy's quad over (0, inf); (c) no Weibull location at all (gamma = 0): a support
# that starts inside (0, inf) puts a kink into the integrand which quad over (0, inf) does not resolve
# (error 6e-5 with an error estimate of 3e-9) -- these regimes are exercised by named cases in c06.py.
SPEC_SMOOTH = dict(SPEC)
SPEC_SMOOTH.update({
    "weibull": [("alpha", "scale", 0.6, 3.0), ("beta", "shape", 1.3, 3.0), ("gamma", "shape", 0.0, 0.0)],
    "expweibull": [("alpha", "scale", 0.6, 3.0), ("beta", "shape", 1.2, 2.5), ("delta", "shape", 1.0, 3.0)],
    "gengamma": [("m", "shape", 1.3, 3.0), ("c", "shape", 1.0, 2.5), ("lambda_", "shape", 0.4, 2.0)],
    "lognormal": [("mu", "logloc", -0.5, 1.5), ("sigma", "shape", 0.25, 0.6)],
    "lognormfit": [("mu_norm", "shape", 1.0, 4.0), ("sigma_norm", "shape", 0.4, 1.5)],
})


# exponentiated Weibull with a small second shape parameter (admissible, unusual): the far lower tail
# of its quantile function needs log1p; used by C01 together with alpha in {1e-6, 1e-8}
SPEC_EWLOW = dict(SPEC)
SPEC_EWLOW.update({"expweibull": [("alpha", "scale", 0.6, 3.0), ("beta", "shape", 0.9, 2.5), ("delta", "shape", 0.3, 0.8)]})
SPECS = {"smooth": SPEC_SMOOTH, "ewlow": SPEC_EWLOW}


def describe(rng, n_dim, cond, families, shapes=None, spec=None):
    """Plain-data description of a random admissible model (JSON-able)."""
    SPEC = spec or globals()["SPEC"]
    desc = {"n_dim": n_dim, "cond": list(cond), "families": list(families), "shapes": [], "dims": []}
    for i in range(n_dim):
        fam = families[i]
        spec = SPEC[fam]
        if cond[i] is None:
            desc["shapes"].append(0)
            desc["dims"].append({"family": fam, "params": {p: float(rng.uniform(lo, hi)) for p, _, lo, hi in spec}})
            continue
        sh = int(shapes[i]) if shapes is not None and shapes[i] else int(rng.integers(2, 5))
        desc["shapes"].append(sh)
        fixed, deps = {}, {}
        for p, pkind, lo, hi in spec:
            main = p == MAIN[fam]
            if sh == 1:
                deps[p] = ("const", (float(rng.uniform(lo, hi)),))
            elif sh == 2:
                if main:
                    deps[p] = _vary(rng, pkind, lo, hi, True)
                elif rng.random() < 0.5:
                    fixed[p] = float(rng.uniform(lo, hi))
                else:
                    deps[p] = ("const", (float(rng.uniform(lo, hi)),))
            elif sh == 3:
                if not main:
                    deps[p] = _vary(rng, pkind, lo, hi, False)
                elif rng.random() < 0.5:
                    fixed[p] = float(rng.uniform(lo, hi))
                else:
                    deps[p] = ("const", (float(rng.uniform(lo, hi)),))
            else:
                deps[p] = _vary(rng, pkind, lo, hi, False)
        if fam == "lognormfit":
            # LogNormalNormFitDistribution needs both parameters passed together
            for p in list(fixed):
                deps[p] = ("const", (fixed.pop(p),))
        desc["dims"].append({"family": fam, "fixed": fixed,
                             "deps": {p: [k, [float(c) for c in co]] for p, (k, co) in deps.items()}})
    return desc


def from_description(vc, desc):
    dds = []
    depcalls = []
    for i, d in enumerate(desc["dims"]):
        cls = dist_class(vc, d["family"])
        if desc["cond"][i] is None:
            dds.append({"distribution": cls(**d["params"])})
            depcalls.append({})
            continue
        templ = cls(**{f"f_{p}": v for p, v in d["fixed"].items()})
        pars = {p: _dep(vc, k, co) for p, (k, co) in d["deps"].items()}
        depcalls.append({p: make_callable(k, co) for p, (k, co) in d["deps"].items()})
        dds.append({"distribution": templ, "conditional_on": int(desc["cond"][i]), "parameters": pars})
    model = vc.GlobalHierarchicalModel(dds)
    model._verif = desc
    model._verif_dep = depcalls
    return model


def build_model(vc, rng, n_dim, cond, families, shapes=None, spec=None):
    return from_description(vc, describe(rng, n_dim, cond, families, shapes, spec))


def change_parameters(model):
    """Edit the parameters of a model built by from_description IN PLACE (same object): parent
    scale/location moved, first coefficient of every dependence function x1.25 (all admissible)."""
    d0 = model.distributions[0]
    fam = model._verif["dims"][0]["family"]
    if fam in ("weibull", "expweibull"):
        d0.alpha = d0.alpha * 1.6
    elif fam in ("lognormal", "normal"):
        d0.mu = d0.mu + 0.47
    elif fam == "gengamma":
        d0.lambda_ = d0.lambda_ / 1.6
    elif fam == "lognormfit":
        d0.mu_norm, d0.sigma_norm = d0.mu_norm * 1.6, d0.sigma_norm * 1.6
    elif fam == "vonmises":
        d0.kappa = d0.kappa * 1.6
    for i in range(1, model.n_dim):
        if model.conditional_on[i] is None:
            continue
        for dep in model.distributions[i].conditional_parameters.values():
            pars = dict(dep.parameters)
            k0 = next(iter(pars))
            pars[k0] = pars[k0] * 1.25
            dep.parameters = pars


def current_description(model, desc):
    """description of the model AS IT IS NOW: parameter values read back from the current objects
    (dist.parameters of unconditional dimensions, dep.parameters of the dependence functions); the
    structure, families, fixed parameters and function kinds are those of desc"""
    import copy
    d = copy.deepcopy(desc)
    for i in range(d["n_dim"]):
        obj = model.distributions[i]
        if d["cond"][i] is None:
            d["dims"][i]["params"] = {k: float(v) for k, v in obj.parameters.items()}
        else:
            for p, (kind, co) in d["dims"][i]["deps"].items():
                cur = list(obj.conditional_parameters[p].parameters.values())
                d["dims"][i]["deps"][p] = [kind, [float(v) for v in cur]]
    return d


def change_description(desc):
    """the description of the model change_parameters() produces (same float operations), so that a
    FRESH model with the current parameters can be built"""
    import copy
    d = copy.deepcopy(desc)
    p0, fam = d["dims"][0]["params"], d["dims"][0]["family"]
    if fam in ("weibull", "expweibull"):
        p0["alpha"] = p0["alpha"] * 1.6
    elif fam in ("lognormal", "normal"):
        p0["mu"] = p0["mu"] + 0.47
    elif fam == "gengamma":
        p0["lambda_"] = p0["lambda_"] / 1.6
    elif fam == "lognormfit":
        p0["mu_norm"], p0["sigma_norm"] = p0["mu_norm"] * 1.6, p0["sigma_norm"] * 1.6
    elif fam == "vonmises":
        p0["kappa"] = p0["kappa"] * 1.6
    for i in range(1, d["n_dim"]):
        if d["cond"][i] is None:
            continue
        for p, (k, co) in d["dims"][i]["deps"].items():
            d["dims"][i]["deps"][p] = [k, [co[0] * 1.25] + list(co[1:])]
    return d


def _ss_p3(x, a=0.1, b=1.489, c=0.1901):
    return a + b * x ** c


def _ss_e3(x, a=0.04, b=0.1748, c=-0.2243):
    return a + b * np.exp(c * x)


def seastate_model(vc):
    """Hs-Tz structure of the predefined DNVGL model (Weibull, LogNormal | Hs) with fit-capable
    dependence functions whose defaults are the DNVGL parameters"""
    bounds = [(0, None), (0, None), (None, None)]
    return vc.GlobalHierarchicalModel([
        {"distribution": vc.WeibullDistribution(alpha=2.776, beta=1.471, f_gamma=0.0)},
        {"distribution": vc.LogNormalDistribution(), "conditional_on": 0,
         "parameters": {"mu": vc.DependenceFunction(_ss_p3, bounds), "sigma": vc.DependenceFunction(_ss_e3, bounds)}}])


def param_values(desc, i, given):
    """Parameter values of dimension i at `given` evaluated by the harness (not by virocon)."""
    d = desc["dims"][i]
    if desc["cond"][i] is None:
        return dict(d["params"])
    out = dict(d["fixed"])
    for p, (k, co) in d["deps"].items():
        out[p] = FUNCS[k](given, *co)
    return out


def constant_style(desc, style):
    """Rewrite the parameters of conditional dimensions that do not vary with the given:
    style "scalar": dependence callable that ignores x and returns a scalar (lambda x, a: a);
    style "fixed":  fixed parameter of the conditional distribution (f_<name>, not in `parameters`);
    style "vector": a + 0*x (what describe() produces).  Returns the number of rewritten parameters."""
    k = 0
    for c, d in zip(desc["cond"], desc["dims"]):
        if c is None:
            continue
        for p, (kind, co) in list(d["deps"].items()):
            if kind != "const":
                continue
            if style == "scalar":
                d["deps"][p] = ["scalar", [float(co[0])]]
                k += 1
            elif style == "fixed":
                d["fixed"][p] = float(co[0])
                del d["deps"][p]
                k += 1
    return k


def nontrivial_dependence(desc):
    """At least one conditional dimension whose parameters really vary with the given."""
    return any(c is not None and any(k not in ("const", "scalar") for k, _ in d["deps"].values())
               for c, d in zip(desc["cond"], desc["dims"]))


def column_sensitive(desc):
    """A dimension conditional on a column other than 0 whose parameters vary with the given:
    reading another column (e.g. cond-1) changes the result."""
    return any(c is not None and c >= 1 and any(k not in ("const", "scalar") for k, _ in d["deps"].values())
               for c, d in zip(desc["cond"], desc["dims"]))


def all_structures(n_dim):
    """Every admissible conditional_on structure (cond[0] = None, cond[i] in {None, 0..i-1})."""
    out = [[None]]
    for i in range(1, n_dim):
        out = [s + [c] for s in out for c in [None] + list(range(i))]
    return out


# ---- small process pool (fork): cases are plain dicts, fn is a module-level function ---------

def pmap_deadline(fn, items, workers=8, deadline_s=60.0):
    """Unordered parallel map with a wall-clock deadline: returns a list aligned with items whose
    entries are the result or None (not finished in time; the worker is terminated)."""
    import multiprocessing as mp
    import time
    items = list(items)
    res = [None] * len(items)
    ctx = mp.get_context("fork")
    pool = ctx.Pool(min(workers, max(1, len(items))))
    try:
        handles = [pool.apply_async(fn, (it,)) for it in items]
        t_end = time.time() + deadline_s
        for k, h in enumerate(handles):
            try:
                res[k] = h.get(timeout=max(0.01, t_end - time.time()))
            except mp.TimeoutError:
                res[k] = None
    finally:
        pool.terminate()
        pool.join()
    return res


def pmap(fn, items, workers=8):
    """Ordered parallel map over plain-data items (fork; falls back to serial for 1 worker)."""
    items = list(items)
    if workers <= 1 or len(items) < 4:
        return [fn(it) for it in items]
    import multiprocessing as mp
    ctx = mp.get_context("fork")
    with ctx.Pool(min(workers, len(items))) as pool:
        return pool.map(fn, items, chunksize=max(1, len(items) // (workers * 8)))


def tlc_configs(ctx, cfg="Gen_Rosenblatt.cfg"):
    """Leg R: every (n, cond, sh) configuration as enumerated by TLC from spec/Rosenblatt.tla.
    Returns dicts n_dim, cond (0-based / None), sh (shape class per dimension)."""
    out = []
    for c in ctx.generate("Rosenblatt", cfg):
        out.append({"n_dim": c["n"], "cond": [None if k == 0 else k - 1 for k in c["cond"]], "sh": list(c["sh"])})
    out.sort(key=lambda c: (c["n_dim"], [-1 if k is None else k for k in c["cond"]], c["sh"]))
    return out
