SPECIFICATION Spec
CONSTANTS BaseSet = {1,3,7}  PairBaseSet = {}  HierarchyCheck = TRUE  Shortcut = "slicerkw"
CHECK_DEADLOCK FALSE
INVARIANT RejectedNotComputed
