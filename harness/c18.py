"""C18 - ill-formed model, fit and contour specifications are rejected, not computed.

M: TLC explores spec/Validation.tla (described -Construct-> -Slice-> -Fit-> -Compute-> result, every
   step raising or passing) for every enumerated case: all well-formed 1-4 dimensional descriptions
   with every valid operation, every single malformation at every position and every pair; invariants
   CatalogueConsistent, RejectedNotComputed, PrefixAccepted, AcceptedWhenWellFormed, DocumentedClass;
   the mutation configs (no hierarchy check = defect D10; fit returns before validating the method when
   all parameters are fixed; 2-D check only made when the sample is drawn) must violate RejectedNotComputed.
R: the same module emits every case.
V: the driver builds the concrete description (carrier families rotate; thorough: all families for
   every single malformation), runs construct -> slice -> fit (300-row table) -> compute as far as it
   gets and records stage and class of the first exception or "result"; spec/Trace_C18.tla compares
   with WellFormed / Stage and asserts that the judged set is exactly the enumerated set.
"""
import os
import signal
import time
import warnings

import numpy as np

from .common import Machinery, import_virocon

LEVEL = "model_checking"
ABSENT = -9
CONDNONE = -8     # 'conditional_on': None written out
FAMS = ["Weibull", "LogNormal", "Normal", "LogNormalNormFit", "ExponentiatedWeibull", "GeneralizedGamma",
        "VonMises"]
PARAMS = {"Weibull": ["alpha", "beta", "gamma"], "LogNormal": ["mu", "sigma"], "Normal": ["mu", "sigma"],
          "LogNormalNormFit": ["mu_norm", "sigma_norm"], "ExponentiatedWeibull": ["alpha", "beta", "delta"],
          "GeneralizedGamma": ["m", "c", "lambda_"], "VonMises": ["kappa", "mu"], "ScipyGumbel": ["loc", "scale"]}
ALLFIXED = {"Weibull": dict(f_alpha=1.2, f_beta=1.8, f_gamma=0.2), "LogNormal": dict(f_mu=0.2, f_sigma=0.4),
            "Normal": dict(f_mu=1.3, f_sigma=0.5), "LogNormalNormFit": dict(f_mu_norm=1.4, f_sigma_norm=0.5),
            "ExponentiatedWeibull": dict(f_alpha=1.2, f_beta=1.8, f_delta=1.1),
            "GeneralizedGamma": dict(f_m=2.0, f_c=1.5, f_lambda_=1.0), "VonMises": dict(f_kappa=2.0, f_mu=1.3),
            "ScipyGumbel": dict(f_loc=1.2, f_scale=0.5)}
# families with a parameter for which 0 is an admissible fixed value, and the spellings of zero
ZERO_PARAM = {"Weibull": "gamma", "Normal": "mu", "VonMises": "mu", "LogNormal": "mu", "ScipyGumbel": "loc"}
ZERO_FAMS = sorted(ZERO_PARAM)
ZERO_VALUES = {"int0": 0, "float0": 0.0, "negzero": -0.0, "npfloat0": np.float64(0), "npint0": np.int64(0)}
DOCUMENTED = (ValueError, TypeError, NotImplementedError, RuntimeError)   # NotImplementedError is a RuntimeError


def _const(x, a):
    return a + 0.0 * x


def dist_class(vc, fam):
    if fam == "ScipyGumbel":        # only used as carrier of a parameter fixed at zero (f_loc=0)
        from virocon.distributions import ScipyDistribution
        return type("ScipyGumbel", (ScipyDistribution,), {"scipy_dist_name": "gumbel_r"})
    if fam == "LogNormalNormFit":
        from virocon.distributions import LogNormalNormFitDistribution
        return LogNormalNormFitDistribution
    return getattr(vc, fam + "Distribution")


def table(seed):
    rng = np.random.default_rng(1800 + seed)
    return 0.4 + 2.4 * rng.beta(2.0, 3.0, size=(300, 5))


SLICER_OPTION_VALUES = {"value_range": (0, 5), "include_max": True, "right_open": True, "last_full": True,
                        "width": 0.8, "n_intervals": 3, "n_points": 50, "reference": "left"}


def make_slicer(vc, kind, variant, ctx):
    if kind == "Ok":
        return vc.NumberOfIntervalsSlicer(3, min_n_points=20)
    if kind == "UnknownKwarg":
        skind, skw = ctx["skind"], ctx["skw"]
        if skind == "any":
            skind = ("Width", "Number", "Points")[variant % 3]
        kw = {"bogus": {"min_points": 3}}.get(skw) or {skw: SLICER_OPTION_VALUES[skw]}
        if skind == "Width":
            return vc.WidthOfIntervalSlicer(0.8, min_n_points=20, **kw)
        if skind == "Number":
            return vc.NumberOfIntervalsSlicer(3, min_n_points=20, **kw)
        return vc.PointsPerIntervalSlicer(100, min_n_points=20, **kw)
    skind = ctx["skind"]
    if kind in ("UnknownRef", "RefWrongType"):
        if skind == "any":
            skind = ("Width", "Number", "Points")[variant % 3]
        ref = 0.5 if kind == "RefWrongType" else {"Width": "middle", "Number": "centre", "Points": "median"}[skind]
        if skind == "Width":
            return vc.WidthOfIntervalSlicer(0.8, reference=ref, min_n_points=20)
        if skind == "Number":
            return vc.NumberOfIntervalsSlicer(3, reference=ref, min_n_points=20)
        return vc.PointsPerIntervalSlicer(100, reference=ref, min_n_points=20)
    if kind == "RangeAboveData":      # the lower limit of value_range lies above every observation (< 2.8)
        if skind == "any":
            skind = ("Width", "Number")[variant % 2]
        if skind == "Width":
            return vc.WidthOfIntervalSlicer(0.5, value_range=(10.0, None), min_n_points=20)   # no interval generated
        return vc.NumberOfIntervalsSlicer(3, value_range=(10.0, 12.0), min_n_points=20)
    if kind == "TooFew":   # 2 intervals of width 2 over (0.4, 2.8) / the default slicer on 300 rows
        if variant % 3 == 2:
            return None     # no "intervals" key at all: the model's own default slicer (10 intervals, >= 50 points each)
        return (vc.WidthOfIntervalSlicer(2.0, min_n_points=20) if variant % 3 else
                vc.NumberOfIntervalsSlicer(10))
    raise Machinery(f"unknown slicer kind {kind}")


def build(vc, case, carriers, variant):
    """stage 1: slicers, description, GlobalHierarchicalModel"""
    descs, slicers = [], []
    for i, dm in enumerate(case["dims"]):
        fam = carriers[i]
        names = PARAMS[fam]
        desc = {}
        sl = make_slicer(vc, dm["slicer"], variant + i, case["ctx"])
        slicers.append(sl)
        if sl is not None:
            desc["intervals"] = sl
        if dm["dist"] == "None":
            desc["distribution"] = None
        if dm["dist"] == "Ok":
            cls = dist_class(vc, fam)
            if dm["params"] == "FixedAndDependent":
                fv = case["ctx"]["fixval"]
                if fv == "nonzero":
                    desc["distribution"] = cls(**{"f_" + names[0]: 1.3})
                else:                                 # fixed at zero, and a dependence function for it as well
                    desc["distribution"] = cls(**{"f_" + ZERO_PARAM[fam]: ZERO_VALUES[fv]})
            elif case["ctx"]["fixed"] == i:           # context: nothing left to estimate
                desc["distribution"] = cls(**ALLFIXED[fam])
            elif not case["ctx"]["fitted"]:           # context: used unfitted, so give it usable parameters
                desc["distribution"] = cls(**{k[2:]: v for k, v in ALLFIXED[fam].items()})
            else:
                desc["distribution"] = cls()
        if dm["cond"] == CONDNONE:
            desc["conditional_on"] = None
        elif dm["cond"] != ABSENT:
            desc["conditional_on"] = dm["cond"]
        p = dm["params"]
        if p != "Absent":
            deps = {nm: vc.DependenceFunction(_const) for nm in names}
            if p == "MissingOne":
                del deps[names[-1]]
            elif p == "UnknownName":
                deps["bogus"] = vc.DependenceFunction(_const)
            elif p == "EntryNone":            # the entry is there but None: the parameter is neither fixed nor dependent
                deps[names[-1]] = None
            elif p == "EntryNumber":          # a plain number is not a dependence function
                deps[names[0]] = 2.0
            elif p == "DepUnknownParam":      # 'd' is not a parameter of _const(x, a): the coupling would be dropped
                deps[names[0]] = vc.DependenceFunction(_const, d=vc.DependenceFunction(_const))
            elif p == "DepMisspeltOption":    # 'bound' instead of 'bounds'
                deps[names[0]] = vc.DependenceFunction(_const, bound=[(0, None)])
            desc["parameters"] = deps
        if dm["extra"]:
            desc["interval"] = 3
        descs.append(desc)
    relax_sibling(vc)
    model = vc.GlobalHierarchicalModel(descs)
    # a dimension without "intervals" key uses the model's default slicer; stage 2 slices with that object
    slicers = [model.interval_slicers[i] if sl is None else sl for i, sl in enumerate(slicers)]
    return model, slicers


_SIBLING = []


def relax_sibling(vc):
    """History class (round-6 seed C18-r6-1): some OTHER model, built earlier from a description without "intervals",
    had its own default slicers relaxed by its owner - a legitimate operation on that model, which must not make a
    later model accept data that leave too few intervals."""
    if _SIBLING:
        return
    sib = vc.GlobalHierarchicalModel([
        {"distribution": vc.WeibullDistribution()},
        {"distribution": vc.LogNormalDistribution(), "conditional_on": 0,
         "parameters": {"mu": vc.DependenceFunction(_const), "sigma": vc.DependenceFunction(_const)}}])
    for sl in sib.interval_slicers:
        if sl is not None:
            sl.min_n_intervals = 1
            sl.min_n_points = 1
    _SIBLING.append(sib)


def fit_args(case, data):
    n = case["n"]
    dk = case["data"]
    if dk == "Ok":
        d = data[:, :n]
    elif dk == "TooFewCols":
        d = data[:, :n - 1]
    elif dk == "TooManyCols":
        d = data[:, :n + 1]
    elif dk == "Ndim3":
        d = data[:, :n].reshape(150, 2, n)     # 3-D, but the last axis has the model's dimension
    else:
        d = data[:, 0]
    fk, pos = case["fit"]["kind"], case["fit"]["pos"]
    ok = lambda i: None if i % 2 else {"method": "mle", "weights": None}
    if fk == "None":
        fd = None
    elif fk == "Ok":
        fd = [ok(i) for i in range(n)]
    elif fk == "TooShort":
        fd = [ok(i + 1) for i in range(n - 1)]
    elif fk == "TooLong":
        fd = [ok(i) for i in range(n + 1)]
    else:
        fd = [ok(i + 1) for i in range(n)]
        fd[pos] = {"MissingMethod": {"weights": None}, "UnknownMethod": {"method": "magic"},
                   "UnknownWeights": {"method": "wlsq", "weights": "quartic"},
                   "MethodNone": {"method": None},
                   "UnknownKey": {"method": "mle", "weight": "quadratic"},
                   "UnknownKeyPlus": {"method": "mle", "weights": None, "wieghts": "quadratic"}}[fk]
    return d, fd


def contain(arr, kind):
    """hand an array of points over in another container / dtype"""
    if kind == "float64":
        return arr
    if kind == "object":
        return np.asarray(arr, dtype=object)
    if kind == "float32":
        return np.asarray(arr, dtype=np.float32)
    if kind == "list":
        return np.asarray(arr).tolist()
    import pandas as pd
    a = np.asarray(arr, dtype=object)            # object-typed frame / series (as read from a mixed csv)
    return pd.Series(a) if a.ndim == 1 else pd.DataFrame(a)


def compute(vc, case, model, data):
    n = case["n"]
    op = case["op"]
    kind, arg, pos = op["kind"], op["arg"], op["pos"]
    ctx = case["ctx"]
    skw = {}
    if ctx["sample"] == "two":
        skw["sample"] = data[:, :2].copy()
    elif ctx["sample"] == "ndim":
        skw["sample"] = data[:, :n].copy()
    if kind == "iform":
        target = {"Ok": model, "IformString": "model", "IformDist": vc.WeibullDistribution(), "IformNone": None}[arg]
        return vc.IFORMContour(target, 0.1, n_points=20)
    if kind == "hdc":
        limits = [(0.0, 4.0)] * n
        deltas = [0.2] * n
        if arg == "HdcLimitsShort":
            limits = limits[:-1]
        elif arg == "HdcLimitsLong":
            limits = limits + [(0.0, 4.0)]
        elif arg == "HdcLimitsNotPair":
            limits[pos] = (0.0, 2.0, 4.0)
        elif arg == "HdcLimitsScalar":
            limits[pos] = 4.0
        elif arg == "HdcDeltasShort":
            deltas = deltas[:-1]
        elif arg == "HdcDeltasLong":
            deltas = deltas + [0.2]
        if ctx["opt"] == "omitted":
            return vc.HighestDensityContour(model, 0.2, limits=limits)
        return vc.HighestDensityContour(model, 0.2, limits=limits, deltas=deltas)
    if kind in ("pdf", "cdf", "tpdf"):
        x = np.full((1, n + 1 if arg.endswith("Surplus") else n), 1.5)
        if arg.endswith("NaN"):
            x[0, pos] = np.nan
        elif arg.endswith("Inf"):
            x[0, pos] = np.inf if pos % 2 == 0 else -np.inf
        x = contain(x, ctx["container"])
        if kind == "tpdf":
            # a transformation under which an infinite coordinate has a finite image (s = 1/(1+t^2) + 1/2)
            tm = vc.TransformedModel(model, transform=lambda y: 0.5 + 1.0 / (1.0 + np.asarray(y) ** 2),
                                     inverse=lambda y: y, jacobian=lambda y: np.ones(len(y)))
            return tm.pdf(x)
        return model.pdf(x) if kind == "pdf" else model.cdf(x)
    if kind in ("mpdf", "mcdf", "micdf", "ccdf", "cicdf"):
        bad = np.nan if arg.endswith("NaN") else ((np.inf if pos % 2 == 0 else -np.inf) if arg.endswith("Inf") else None)
        pts = np.array([0.5, 0.6]) if kind in ("micdf", "cicdf") else np.array([1.2, 1.5])
        given = np.full((2, n), 1.5)
        if bad is not None:
            if "Given" in arg:
                given[1, pos] = bad
            else:
                pts[1] = bad
            if "Given" in arg:
                given = contain(given, ctx["container"])
            else:
                pts = contain(pts, ctx["container"])
        if kind == "mpdf":
            return model.marginal_pdf(pts, pos)
        if kind == "mcdf":
            return model.marginal_cdf(pts, pos)
        if kind == "micdf":
            return model.marginal_icdf(pts, pos)
        if kind == "ccdf":
            return model.conditional_cdf(pts, pos, given)
        return model.conditional_icdf(pts, pos, given)
    if kind == "ds":
        return vc.DirectSamplingContour(model, 0.2, n=500, deg_step=30, **skw)
    if kind == "and":
        return vc.AndContour(model, 0.2, n=500, deg_step=30, **skw)
    if kind == "or":
        return vc.OrContour(model, 0.2, n=500, deg_step=30, **skw)
    raise Machinery(f"unknown operation {kind}")


class NotRejectedInTime(BaseException):
    """a call that neither raised nor returned within the time limit: the input was not rejected where it
    was supplied (a rejection is immediate); older code e.g. integrates a cdf over surplus columns for minutes"""


TIME_LIMIT = 2.0      # operations (a rejection is immediate; valid operations that take longer count as computed)
FIT_LIMIT = 6.0


def limited(fn, limit=None):
    def on_alarm(signum, frame):
        raise NotRejectedInTime()
    old = signal.signal(signal.SIGALRM, on_alarm)
    signal.setitimer(signal.ITIMER_REAL, limit or TIME_LIMIT)
    try:
        return fn()
    finally:
        signal.setitimer(signal.ITIMER_REAL, 0)
        signal.signal(signal.SIGALRM, old)


def cls_name(e):
    for base in DOCUMENTED:
        if isinstance(e, base):
            return base.__name__
    return type(e).__name__


def carriers_for(case, rot):
    c = [FAMS[(rot + i) % len(FAMS)] for i in range(case["n"])]
    if case["ctx"]["fixval"] != "nonzero":              # a family in which 0 is an admissible parameter value
        for i, dm in enumerate(case["dims"]):
            if dm["params"] == "FixedAndDependent":
                c[i] = ZERO_FAMS[(rot + i) % len(ZERO_FAMS)]
    if case["fit"]["kind"] == "UnknownWeights":
        c[case["fit"]["pos"]] = "ExponentiatedWeibull"   # the only family with a least-squares fit
    return c


class Runner:
    def __init__(self, vc, seed):
        self.vc = vc
        self.data = table(seed)
        self.cache = {}

    def run(self, rid, case, rot):
        vc = self.vc
        carriers = carriers_for(case, rot)
        rec = dict(id=rid, case=case, stage=5, cls="result", carriers=carriers, msg="")

        def fail(stage, e):
            rec.update(stage=stage, cls=cls_name(e), msg=f"{type(e).__name__}: {e}"[:160])
            return rec

        with warnings.catch_warnings():
            warnings.simplefilter("ignore")
            # a fitted model is shared by the cases that differ only in the operation computed from it
            stages_ok = (all(d["dist"] == "Ok" and not d["extra"] and d["slicer"] == "Ok" for d in case["dims"])
                         and case["data"] == "Ok" and case["fit"]["kind"] in ("None", "Ok"))
            fitted = case["ctx"]["fitted"]
            stages_ok = stages_ok and case["ctx"]["fixed"] == -1
            key = (case["b"], tuple(carriers), case["fit"]["kind"] if fitted else "unfitted",
                   tuple((d["cond"], d["params"]) for d in case["dims"]))
            model = self.cache.get(key) if stages_ok else None
            if model is None:
                try:
                    model, slicers = build(vc, case, carriers, rid)
                except Exception as e:  # noqa
                    return fail(1, e)
                try:
                    for i, sl in enumerate(slicers):
                        sl.slice_(self.data[:, i])
                except Exception as e:  # noqa
                    return fail(2, e)
                try:
                    if fitted:
                        d, fd = fit_args(case, self.data)
                        limited(lambda: model.fit(d, fd), FIT_LIMIT)
                except NotRejectedInTime:
                    rec["msg"] = f"fit neither raised nor returned within {FIT_LIMIT} s"
                    return rec                      # stage 5 / "result": computed, not rejected
                except Exception as e:  # noqa
                    return fail(3, e)
                if stages_ok:
                    self.cache[key] = model
            try:
                res = limited(lambda: compute(vc, case, model, self.data))
                if res is None:
                    raise Machinery("operation returned None")
            except NotRejectedInTime:
                rec["msg"] = f"operation neither raised nor returned within {TIME_LIMIT} s"
                return rec
            except Machinery:
                raise
            except Exception as e:  # noqa
                return fail(4, e)
        return rec


def mal_text(case):
    return "+".join(f"{m['name']}@{m['pos']}" for m in case["mal"]) or "wellformed"


def case_key(case):
    conds = ",".join("-" if d["cond"] == ABSENT else ("None" if d["cond"] == CONDNONE else str(d["cond"]))
                     for d in case["dims"])
    cx = case["ctx"]
    return (f"n={case['n']} base={case['b']} mal={mal_text(case)} "
            f"op={case['op']['kind']}/{case['op']['arg']} fit={case['fit']['kind']} data={case['data']} cond=[{conds}] "
            f"ctx=allfixed:{cx['fixed']},sample:{cx['sample']},fitted:{int(cx['fitted'])},opt:{cx['opt']},"
            f"slicer:{cx['skind']}/{cx['skw']},fixed_at:{cx['fixval']},points:{cx['container']}")


def judge(ctx, cases, recs, cfg):
    failing = ctx.validate("Trace_C18", cfg, recs, timeout=3000)
    for c, r in zip(cases, recs):
        ctx.case(case_key(c), True)
        for clause in failing.get(r["id"], []):
            ctx.violation(clause, case_key(c) + " carriers=" + ",".join(r["carriers"]),
                          f"observed stage={r['stage']} class={r['cls']} msg={r['msg']!r}",
                          replay=dict(case=c, rot=r["rot"]))
    return failing


def run(ctx):
    vc = import_virocon()
    ctx.rule = ("cases enumerated by TLC from spec/Validation.tla: 9 valid dependency structures of 1-4 dimensions x "
                "{every valid operation and fit description (well-formed) ; every single malformation at every "
                "position, each additionally in the contexts that a validation must not depend on (all-fixed "
                "carrier at the dimension of a malformed fit description, caller-supplied 2-/n-column sample for "
                "the 2-D-only contours, unfitted model, optional HDC deltas omitted, every slicer class with a bogus "
                "option and with every option that only a sibling slicer knows) ; every pair of malformations of different fields (quick: 3 structures, thorough: all 9)}; "
                "carrier families rotate with the case index (thorough: every single malformation and every "
                "well-formed case additionally with all 7 families). distinct = distinct abstract case; all "
                "non-trivial (each runs at least the constructor)")
    ctx.trusted = ["TLC 1.8 evaluating spec/ValidationOps.tla (WellFormed, Stage, the catalogue)",
                   "harness/c18.py concretisation of the abstract fields (which concrete value stands for "
                   "'UnknownName', 'TooFew', ...) and the stage at which each input is handed to virocon"]
    ctx.assumptions = ["stage order: slicers/description/constructor (1), IntervalSlicer.slice_ on the column of its "
                       "dimension (2), GlobalHierarchicalModel.fit on a 300-row table (3), contour / pdf / cdf (4)",
                       "'conditional_on': None is only enumerated together with 'parameters'",
                       f"a fit or operation that neither raises nor returns within {TIME_LIMIT:g} s counts as computed "
                       "(not rejected)",
                       "an exception counts as a rejection only if it is a ValueError, TypeError, RuntimeError or "
                       "NotImplementedError (the documented classes), not an accidental KeyError/IndexError"]
    # ---- M
    ctx.model_check("Validation", ctx.pick("MC_Validation_quick.cfg", "MC_Validation_thorough.cfg"),
                    must_cover=("Step", "Compute"), workers=8)
    ctx.model_check("Validation", "MC_Validation_mut.cfg", expect_violation="RejectedNotComputed", workers=4)
    ctx.model_check("Validation", "MC_Validation_mut_allfixed.cfg", expect_violation="RejectedNotComputed", workers=4)
    ctx.model_check("Validation", "MC_Validation_mut_sample.cfg", expect_violation="RejectedNotComputed", workers=4)
    ctx.model_check("Validation", "MC_Validation_mut_slicerkw.cfg", expect_violation="RejectedNotComputed", workers=4)
    ctx.model_check("Validation", "MC_Validation_mut_lateref.cfg", expect_violation="RejectedNotComputed", workers=4)
    ctx.model_check("Validation", "MC_Validation_mut_params.cfg", expect_violation="RejectedNotComputed", workers=4)
    ctx.model_check("Validation", "MC_Validation_mut_falsy.cfg", expect_violation="RejectedNotComputed", workers=4)
    ctx.model_check("Validation", "MC_Validation_mut_depkw.cfg", expect_violation="RejectedNotComputed", workers=4)
    ctx.model_check("Validation", "MC_Validation_mut_fitkey.cfg", expect_violation="RejectedNotComputed", workers=4)
    ctx.model_check("Validation", "MC_Validation_mut_object.cfg", expect_violation="RejectedNotComputed", workers=4)
    ctx.model_check("Validation", "MC_Validation_mut_none.cfg", expect_violation="RejectedNotComputed", workers=4)
    ctx.model_check("Validation", "MC_Validation_mut_entry.cfg", expect_violation="RejectedNotComputed", workers=4)
    # ---- R
    cases = ctx.generate("Validation", ctx.pick("Gen_Validation_quick.cfg", "Gen_Validation_thorough.cfg"))
    cases.sort(key=case_key)
    # ---- V
    runner = Runner(vc, ctx.seed)
    recs, rcases = [], []
    for i, c in enumerate(cases):
        stage1 = any(d["dist"] != "Ok" or d["extra"] or d["slicer"] in ("UnknownKwarg", "UnknownRef", "RefWrongType") or
                     (d["cond"] not in (ABSENT, CONDNONE) and d["params"] != "Exact") or
                     (d["cond"] in (ABSENT, CONDNONE) and d["params"] != "Absent") for d in c["dims"])
        rot = (ctx.seed + i) % 7 if stage1 else (ctx.seed + c["b"]) % 7
        rots = [rot]
        if not ctx.quick and len(c["mal"]) <= 1:
            rots = list(range(7))
        for rt in rots:
            t_case = time.time()
            r = runner.run(len(recs) + 1, c, rt)
            if time.time() - t_case > 1.5 and os.environ.get("VERIF_C18_SLOW"):
                ctx.log(f"slow case {time.time() - t_case:.1f}s: {case_key(c)} -> stage {r['stage']} {r['cls']}")
            r["rot"] = rt
            recs.append(r)
            rcases.append(c)
    failing = judge(ctx, rcases, recs, ctx.pick("Trace_C18_quick.cfg", "Trace_C18_thorough.cfg"))
    log = (ctx.work / "tlc_Trace_C18_" f"{ctx.pick('Trace_C18_quick', 'Trace_C18_thorough')}.log").read_text()
    if '<<"COVERAGE", TRUE>>' not in log:
        raise Machinery("Trace_C18: the judged cases are not exactly the enumerated set (COVERAGE FALSE or missing)")
    ctx.log(f"{len(recs)} executions of {len(cases)} enumerated cases judged, {len(failing)} rejected; coverage asserted")
    selftest(ctx, rcases, recs, failing)
    ctx.exhaustive = True
    ctx.notes["enumerated_cases"] = len(cases)
    ctx.notes["executions"] = len(recs)
    ctx.notes["rejected_at_stage"] = {str(s): sum(1 for r in recs if r["stage"] == s) for s in (1, 2, 3, 4, 5)}
    ctx.notes["exception_classes"] = {k: sum(1 for r in recs if r["cls"] == k) for k in sorted({r["cls"] for r in recs})}
    for want in ("CondLater", "HdcLimitsNotPair", ""):
        i = next((i for i, c in enumerate(rcases) if want in mal_text(c)), 0)
        ctx.sample({"key": case_key(rcases[i]), "record": recs[i]})


def selftest(ctx, cases, recs, failing):
    """every clause must be able to fail"""
    ok = [(c, r) for c, r in zip(cases, recs) if r["id"] not in failing]
    good = next((r for c, r in ok if not c["mal"]), None)
    hier = next((r for c, r in ok if mal_text(c).startswith("CondLater")), None)
    late = next((r for c, r in ok if mal_text(c).startswith("HdcLimitsNotPair")), None)
    if None in (good, hier, late):
        if ctx.violations:      # nothing accepted to corrupt because the code under test is rejected anyway
            ctx.log("self-test skipped: no accepted records of the needed kinds (violations reported)")
            return
        raise Machinery("self-test: no accepted records to corrupt")
    muts = []

    def m(base, clause, **upd):
        r = dict(base)
        r.update(upd)
        r["id"] = 9_000_000 + len(muts)
        muts.append((clause, r))

    m(hier, "RejectedNotComputed", stage=5, cls="result")          # D10: a result for conditional_on >= i
    m(hier, "RejectedNotComputed", stage=3, cls="ValueError")      # rejected, but only when fitting
    m(late, "PrefixAccepted", stage=1, cls="ValueError")           # rejected before the bad input was supplied
    m(good, "AcceptedWhenWellFormed", stage=3, cls="RuntimeError")
    m(hier, "DocumentedClass", cls="IndexError")
    bad = dict(hier, case=dict(hier["case"], dims=[dict(hier["case"]["dims"][0], cond=CONDNONE, params="Absent")]
                               + hier["case"]["dims"][1:]))
    m(bad, "InDomain")
    res = ctx.validate("Trace_C18", "Trace_C18_part.cfg", [r for _, r in muts])
    for clause, r in muts:
        if clause not in res.get(r["id"], []):
            raise Machinery(f"self-test: corrupted record did not fail clause {clause}: got {res.get(r['id'])}")
    ctx.log(f"self-test: {len(muts)} corrupted records rejected with the expected clause")


def replay(ctx, case):
    vc = import_virocon()
    c = case["case"]["case"]
    rot = case["case"]["rot"]
    r = Runner(vc, ctx.seed).run(1, c, rot)
    r["rot"] = rot
    judge(ctx, [c], [r], "Trace_C18_part.cfg")
