SPECIFICATION Spec
CONSTANTS NSet = {100, 500, 5000}  CSet = {1, 2, 3, 4, 5, 6}  Kinds = {"default", "user", "far"}  Reps = {1, 2, 3}  SharedKw = FALSE  KFixAll = TRUE  Dev = "none"
CHECK_DEADLOCK FALSE
INVARIANT NoLikelihoodLoss
INVARIANT AtLeastGenerating
INVARIANT Admissible
INVARIANT ScaleEquivariant
INVARIANT HistoryIndependent
