SPECIFICATION Spec
CONSTANTS NPts = 3  Need = 5  ThreadMarginal = FALSE
CHECK_DEADLOCK FALSE
INVARIANT Reproducible
INVARIANT UnseededDiffer
INVARIANT SeedsDiffer
