----------------------------- MODULE Trace_C19 -----------------------------
(* Trace validation for C19.  One record = one history of operations replayed on real    *)
(* models built from predefined getters.  After every operation the harness compares      *)
(* fingerprints of every mutable object reachable from every model (own content only, by  *)
(* bit pattern) and of every caller-owned array with those before it, and logs the        *)
(* objects that changed as <<model, role, label>>, whether a caller array changed, and a   *)
(* digest number (numbered by first occurrence) of the operation's result.  `shared` lists  *)
(* mutable objects reachable from two models that came from separate getter calls.         *)
EXTENDS PurityOps, Fix, Json, IOUtils, TLC

TraceLog == ndJsonDeserialize(IOEnv.TRACE_FILE)
VARIABLE l

Key(e) == <<e.m, e.e>>

(* state: mem = set of <<m, e, dig>> still valid (no fit / new of m since) *)
RECURSIVE Replay(_, _, _)
Replay(evs, i, mem) ==
    IF i > Len(evs) THEN <<>>
    ELSE
      LET e == evs[i]
          ch == Range(e.changed)
          prev == {x \in mem : x[1] = e.m /\ x[2] = e.e}
          cl == <<
            <<"InputsUntouched", ~e.inputchanged>>,
            <<"EvalIsPure", IsEval(e.op) => e.changed = <<>> >>,
            <<"FitIsLocal", e.op = "fit" => \A c \in ch : c[1] = e.m>>,
            <<"TemplateUntouched", e.op = "fit" => \A c \in ch : c[2] # "template">>,
            <<"FitWritesOnlyFittedState", e.op = "fit" => \A c \in ch : c[1] = e.m => MayChange("fit", c[2])>>,
            <<"NewIsFresh", e.op = "new" => \A c \in ch : c[1] = e.m>>,
            <<"Repeatable", IsEval(e.op) /\ e.deterministic => \A x \in prev : x[3] = e.dig>>,
            (* the result depends only on the state of the model (its new / fit operations), not on which *)
            (* evaluations were made before: equal to the result on a twin without earlier evaluations   *)
            <<"HistoryIndependent", e.twin => e.twinsame>>
          >>
          mem2 == IF IsEval(e.op) THEN (IF e.deterministic THEN mem \cup {<<e.m, e.e, e.dig>>} ELSE mem)
                  ELSE {x \in mem : x[1] # e.m}
      IN Failing(cl) \o Replay(evs, i + 1, mem2)

Verdict(r) == Replay(r.events, 1, {}) \o (IF r.shared = <<>> THEN <<>> ELSE <<"FreshGraphsDisjoint">>)

Init == l = 1
Next == /\ l <= Len(TraceLog)
        /\ LET r == TraceLog[l] v == Verdict(r) IN
             IF v = <<>> THEN TRUE ELSE PrintT(<<"VERDICT", r.id, v>>)
        /\ l' = l + 1
Spec == Init /\ [][Next]_l
Consumed == l = Len(TraceLog) + 1 => PrintT(<<"CONSUMED", l - 1>>)
=============================================================================
