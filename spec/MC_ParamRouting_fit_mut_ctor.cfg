SPECIFICATION Spec
CONSTANTS Scen = "fit"  NGiven = 2  MutKind = "ctor"  MutFam = "VonMises"  MutName = "none"
CHECK_DEADLOCK FALSE
INVARIANT FixedHonoured
INVARIANT EvalUsesPar
INVARIANT FitOutcomeAsSpecified
INVARIANT FreeEstimated
PROPERTY FixedStable
