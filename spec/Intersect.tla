----------------------------- MODULE Intersect -----------------------------
(* The algorithm of virocon._intersection.intersection as a state machine over lattice  *)
(* polylines, checked against the declarative meaning (IntersectOps!CrossingPairs):     *)
(*   Boxes : candidate pairs = segment pairs whose bounding boxes overlap (<=, >=)       *)
(*   Solve : per candidate the 4x4 system; a singular system (parallel lines) gives      *)
(*           no solution; keep the pair iff 0 <= t <= 1 and 0 <= u <= 1                  *)
(*   Emit  : the crossing points of the kept pairs                                       *)
(* StrictUpper = TRUE is the named deviation t < 1 / u < 1 (vacuity guard: it loses the  *)
(* touching end points; in general position it must NOT matter).                         *)
EXTENDS IntersectOps, TLC, Json

CONSTANTS L,            \* lattice 0..L-1 squared
          NP, NQ,       \* number of vertices of the two polylines
          StrictUpper,  \* FALSE = as coded
          NoBox         \* TRUE = drop the bounding-box filter (it must be redundant)
VARIABLES pc, p, q, cand, kept, pts

vars == <<pc, p, q, cand, kept, pts>>
Lat == (0..(L - 1)) \X (0..(L - 1))

Init ==
    /\ pc = "start"
    /\ p \in [1..NP -> Lat] /\ q \in [1..NQ -> Lat]
    /\ cand = {} /\ kept = {} /\ pts = <<>>

BoxOverlap(a, b, c, d) ==
    /\ Min2(a[1], b[1]) <= Max2(c[1], d[1]) /\ Max2(a[1], b[1]) >= Min2(c[1], d[1])
    /\ Min2(a[2], b[2]) <= Max2(c[2], d[2]) /\ Max2(a[2], b[2]) >= Min2(c[2], d[2])

Boxes ==
    /\ pc = "start"
    /\ cand' = {ij \in (1..NSeg(p)) \X (1..NSeg(q)) :
                  NoBox \/ BoxOverlap(p[ij[1]], p[ij[1] + 1], q[ij[2]], q[ij[2] + 1])}
    /\ pc' = "boxes"
    /\ UNCHANGED <<p, q, kept, pts>>

Unit(num, den) == IF StrictUpper THEN InUnitOpenRight(num, den) ELSE InUnit(num, den)

Solve ==
    /\ pc = "boxes"
    /\ kept' = {ij \in cand :
                  LET a == p[ij[1]] b == p[ij[1] + 1] c == q[ij[2]] d == q[ij[2] + 1]
                      dn == Den(a, b, c, d)
                  IN dn # 0 /\ Unit(TNum(a, b, c, d), dn) /\ Unit(UNum(a, b, c, d), dn)}
    /\ pc' = "solved"
    /\ UNCHANGED <<p, q, cand, pts>>

Emit ==
    /\ pc = "solved"
    /\ pts' = LET prs == SeqOfSet(kept) IN
                [k \in 1..Len(prs) |-> CrossPoint(p[prs[k][1]], p[prs[k][1] + 1], q[prs[k][2]], q[prs[k][2] + 1])]
    /\ pc' = "done"
    /\ UNCHANGED <<p, q, cand, kept>>

Next == Boxes \/ Solve \/ Emit
Spec == Init /\ [][Next]_vars

----------------------------------------------------------------------------
Done == pc = "done"
GP == GeneralPosition(p, q)

(* the property: in general position the result is exactly the set of crossings *)
ExactlyTheCrossings == Done /\ GP => kept = CrossingPairs(p, q)
(* every reported point lies on both polylines (on the two segments of its pair) *)
OnBoth == Done =>
    \A ij \in kept :
       LET a == p[ij[1]] b == p[ij[1] + 1] c == q[ij[2]] d == q[ij[2] + 1]
           e == CrossPoint(a, b, c, d)
       IN /\ (e[1] - a[1] * e[3]) * (b[2] - a[2]) = (e[2] - a[2] * e[3]) * (b[1] - a[1])
          /\ (e[1] - c[1] * e[3]) * (d[2] - c[2]) = (e[2] - c[2] * e[3]) * (d[1] - c[1])
          /\ Min2(a[1], b[1]) * e[3] <= e[1] /\ e[1] <= Max2(a[1], b[1]) * e[3]
          /\ Min2(c[1], d[1]) * e[3] <= e[1] /\ e[1] <= Max2(c[1], d[1]) * e[3]
(* the bounding-box filter never removes a crossing *)
BoxFilterSound == pc # "start" => CrossingPairs(p, q) \subseteq cand
(* outside general position the closed parameter range reports every touching pair of    *)
(* non-parallel segments; with the strict upper bound a touching END point is lost        *)
TouchingKept == Done =>
    \A ij \in (1..NSeg(p)) \X (1..NSeg(q)) :
       LET a == p[ij[1]] b == p[ij[1] + 1] c == q[ij[2]] d == q[ij[2] + 1] IN
         (Den(a, b, c, d) # 0 /\ (OnSegment(b, c, d) \/ OnSegment(d, a, b))) => ij \in kept
=============================================================================
