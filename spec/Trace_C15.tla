----------------------------- MODULE Trace_C15 -----------------------------
(* Trace validation for C15.                                                            *)
(* kind = "hdc": one real HighestDensityContour                                         *)
(*   shape      grid shape; cells 1..N in C order                                       *)
(*   R          the enclosed region as 0/1 mask: the mask returned by                   *)
(*              cumsum_biggest_until (all cells when the constructor warned that        *)
(*              1 - alpha could not be reached)                                         *)
(*   sets       the returned coordinates, one sequence of cell numbers per returned     *)
(*              coordinate set, in the returned order (exact float lookup of every      *)
(*              returned coordinate among the cell centres)                             *)
(*   offgrid    number of returned points that are not cell centres                     *)
(*   ragged     a coordinate set whose per-dimension arrays differ in length            *)
(*   isarray    coordinates is one ndarray; arrshape its shape                          *)
(*   resorted   (2-D, one array) what sort_points_to_form_continuous_line(..,           *)
(*              search_for_optimal_start=True) returns for the returned cells taken in  *)
(*              raster order; <<>> otherwise                                            *)
(*   freshsame  for a contour on a model object with a history (earlier contour, then an   *)
(*              in-place change): everything equals the contour of a freshly constructed   *)
(*              model with the current parameters (TRUE without history)                   *)
(* kind = "sort": one call of sort_points_to_form_continuous_line                       *)
(*   inp, out   input / output points as <<x, y>> in units of 10^-6 (inputs are         *)
(*              generated on that lattice, so the projection is exact)                  *)
(* No tolerances: everything is exact (cell numbers, lattice points).                   *)
EXTENDS HDCOps, Json, IOUtils

TraceLog == ndJsonDeserialize(IOEnv.TRACE_FILE)
VARIABLE l

SeqSet(s) == {s[i] : i \in 1..Len(s)}

JudgeHdc(r) ==
  LET n      == Len(r.shape)
      full   == Offsets(n)
      bdef   == BoundaryFast(r.R, r.shape, full)      \* = BoundaryDef (HDC.tla: FastIsDef)
      nsets  == Len(r.sets)
      asSets == [i \in 1..nsets |-> SeqSet(r.sets[i])]
      coords == UNION {asSets[i] : i \in 1..nsets}
      npts   == SumSeq([i \in 1..nsets |-> Len(r.sets[i])])
      region == Cells(r.R)
      (* connected regions (= Components, HDC.tla: FastIsDef); a region that is the whole grid *)
      (* (warn path) is one region                                                            *)
      rcomps == IF \A c \in 1..Len(r.R) : r.R[c] = 1 THEN {1..Len(r.R)}
                ELSE ComponentsOfMask(r.R, r.shape, full)
  IN <<
    <<"CoordsAreCellCentres", r.offgrid = 0 /\ ~r.ragged>>,
    <<"CoordsAreBoundary", coords = bdef>>,
    <<"EachOnce", npts = Cardinality(coords)>>,
    (* every returned set lies inside one connected component of the enclosed region *)
    <<"SetsDoNotMixRegions",
        \A i \in 1..nsets : asSets[i] # {} => \E K \in rcomps : asSets[i] \subseteq K>>,
    (* one coordinate set per region: all boundary cells of that region, also when the      *)
    (* region has holes and its boundary consists of several pieces                         *)
    <<"OneSetPerRegion",
        /\ {asSets[i] : i \in 1..nsets} = {K \cap bdef : K \in rcomps}
        /\ nsets = Cardinality(rcomps)>>,
    <<"SingleIs2DArray",
        /\ (r.isarray <=> Cardinality(rcomps) = 1)
        /\ (r.isarray => r.arrshape = <<Cardinality(bdef), n>>)>>,
    <<"OrderIsLineSorter", (r.isarray /\ n = 2 /\ r.offgrid = 0) => r.sets[1] = r.resorted>>
  >>

(* bag equality: every point occurs as often in the output as in the input *)
JudgeSort(r) ==
  LET pts == SeqSet(r.inp) \cup SeqSet(r.out)
  IN <<
    <<"SorterOutputShape", r.samelen>>,
    <<"IsPermutation",
        /\ Len(r.out) = Len(r.inp)
        /\ \A p \in pts : Count(r.out, p) = Count(r.inp, p)>>,
    <<"InputNotMutated", ~r.mutated>>
  >>

Clauses(r) ==
  IF r.exc # "" THEN << <<"UnexpectedException", FALSE>> >>
  ELSE IF r.kind = "sort" THEN JudgeSort(r)
  ELSE IF Len(r.R) # NCells(r.shape) THEN << <<"ArrayShape", FALSE>> >>
  ELSE JudgeHdc(r) \o << <<"EqualsFreshModel", r.freshsame>> >>

Verdict(r) == Failing(Clauses(r))

Init == l = 1
Next == /\ l <= Len(TraceLog)
        /\ LET r == TraceLog[l] v == Verdict(r) IN
             IF v = <<>> THEN TRUE ELSE PrintT(<<"VERDICT", r.id, v>>)
        /\ l' = l + 1
Spec == Init /\ [][Next]_l
Consumed == l = Len(TraceLog) + 1 => PrintT(<<"CONSUMED", l - 1>>)
=============================================================================
