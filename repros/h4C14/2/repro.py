"""C14: constrained fit (no bounds, one inequality constraint that is active at the
optimum) returns a point at which SLSQP merely hit its iteration limit; a nearby
admissible perturbation and an admissible far point have a much lower squared residual.
"""
import sys
import numpy as np
from virocon import DependenceFunction


def exp3(x, a, b, c):
    return a + b * np.exp(c * x)


x = np.array([0.5737791871576916, 2.182786185234694, 3.4173209912196274,
              5.138219107028386, 7.278075626925771, 7.588736297720597,
              8.40857427538906, 8.867360523679302, 9.556559088678954,
              13.365524277982773])
y = np.array([1.4345672737926574, 1.5654092516030045, 1.9083539253575927,
              2.315089779026837, 3.269515199183198, 2.9582950381953133,
              3.0948914969820382, 3.6376538394504685, 3.600274977784251,
              6.293655478869613])
cvec = np.array([-0.3207816452422391, -0.30991679095796526, 0.5518606367365548])
r = 0.15046861822974916


def g(p):  # inequality constraint g(p) >= 0 (linear in the parameters)
    return float(cvec @ np.asarray(p, dtype=float) - r)


def sse(p):
    return float(np.sum((exp3(x, *p) - y) ** 2))


dep = DependenceFunction(exp3, constraints=[{"type": "ineq", "fun": g}])
dep.fit(x, y)  # no error
p = np.array(list(dep.parameters.values()), dtype=float)
err = sse(p)
print("fitted parameters", p, "squared residual", err, "constraint value", g(p))

# nearby admissible perturbations (|dp_i| <= 1e-3 * max(|p_i|, 1e-3)), seeded search
rng = np.random.default_rng(0)
best, best_q = err, None
for _ in range(2000):
    q = p + 1e-3 * rng.uniform(-1, 1, 3) * np.maximum(np.abs(p), 1e-3)
    if g(q) < 0:
        continue
    e = sse(q)
    if e < best:
        best, best_q = e, q
print("best nearby admissible point", best_q, "squared residual", best,
      "constraint value", None if best_q is None else g(best_q))

# an admissible point far away (strictly inside the constraint), no optimiser involved
ref = np.array([-33.1530988, 33.8473534, 0.00984])
print("admissible reference", ref, "squared residual", sse(ref), "constraint value", g(ref))

violation = g(p) >= -1e-9 and best_q is not None and best < err * (1 - 0.05)
if violation:
    print(f"VIOLATION: nearby admissible perturbation lowers the squared residual by "
          f"{100 * (1 - best / err):.1f} %; the admissible reference is "
          f"{err / sse(ref):.1f} times better")
sys.exit(1 if violation else 0)
