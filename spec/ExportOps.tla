----------------------------- MODULE ExportOps -----------------------------
(* What save_contour_coordinates writes and what plot_2D_contour draws.                 *)
(* Text is a sequence of code points.  A coordinate as it appears in a file written      *)
(* with the C format 1.6f is a record [neg |-> sign bit, q |-> |value| rounded to 6 decimals * 1e6].*)
EXTENDS Integers, Sequences, FiniteSets, Fix

Semi == 59  Dot == 46  Minus == 45  Slash == 47  Space == 32  LPar == 40  RPar == 41

RECURSIVE Join(_, _)
Join(sep, ss) == IF Len(ss) = 0 THEN <<>>
                 ELSE IF Len(ss) = 1 THEN ss[1]
                 ELSE ss[1] \o sep \o Join(sep, Tail(ss))

RECURSIVE Digits(_)
Digits(n) == IF n < 10 THEN <<48 + n>> ELSE Digits(n \div 10) \o <<48 + (n % 10)>>
Dig(n, p) == 48 + ((n \div p) % 10)
Pad6(n) == <<Dig(n, 100000), Dig(n, 10000), Dig(n, 1000), Dig(n, 100), Dig(n, 10), Dig(n, 1)>>

(* the C format 1.6f *)
Fmt6(c) == (IF c.neg THEN <<Minus>> ELSE <<>>) \o Digits(c.q \div 1000000) \o <<Dot>> \o Pad6(c.q % 1000000)
Row(cs) == Join(<<Semi>>, [d \in 1..Len(cs) |-> Fmt6(cs[d])])

(* header: "<name> (<unit>)" per dimension joined with ';' *)
Field(name, unit) == name \o <<Space, LPar>> \o unit \o <<RPar>>
Header(names, units) == Join(<<Semi>>, [d \in 1..Len(names) |-> Field(names[d], units[d])])
(* Line breaks (LF, CR LF, CR) inside a semantics string must not break the header line: *)
(* every break becomes one blank, a break at the very end is dropped (splitlines + join). *)
IsBreak(c) == c = 10 \/ c = 13
RECURSIVE Flat(_)
Flat(s) == IF s = <<>> THEN <<>>
           ELSE IF s[1] = 13 /\ Len(s) >= 2 /\ s[2] = 10
                THEN (IF Len(s) = 2 THEN <<>> ELSE <<Space>> \o Flat(SubSeq(s, 3, Len(s))))
           ELSE IF IsBreak(s[1]) THEN (IF Len(s) = 1 THEN <<>> ELSE <<Space>> \o Flat(Tail(s)))
           ELSE <<s[1]>> \o Flat(Tail(s))
(* the lines a reader sees in a text *)
RECURSIVE SplitBreaks(_, _)
SplitBreaks(s, cur) ==
    IF s = <<>> THEN <<cur>>
    ELSE IF s[1] = 13 /\ Len(s) >= 2 /\ s[2] = 10 THEN <<cur>> \o SplitBreaks(SubSeq(s, 3, Len(s)), <<>>)
    ELSE IF IsBreak(s[1]) THEN <<cur>> \o SplitBreaks(Tail(s), <<>>)
    ELSE SplitBreaks(Tail(s), Append(cur, s[1]))
HasBreak(s) == \E i \in 1..Len(s) : IsBreak(s[i])
(* the characters of a text without blanks and line breaks *)
Solid(s) == SelectSeq(s, LAMBDA c : ~IsBreak(c) /\ c # Space)
(* L is the text h with every line break (CR LF, LF, CR) turned into one blank or into nothing: *)
(* every other character - blanks and tabs included - is preserved, in order                    *)
RECURSIVE BreaksFlattened(_, _)
BreaksFlattened(L, h) ==
    IF h = <<>> THEN L = <<>>
    ELSE LET n == IF h[1] = 13 /\ Len(h) >= 2 /\ h[2] = 10 THEN 2 ELSE 1
             rest == SubSeq(h, n + 1, Len(h)) IN
         IF IsBreak(h[1])
         THEN BreaksFlattened(L, rest) \/ (L # <<>> /\ L[1] = Space /\ BreaksFlattened(Tail(L), rest))
         ELSE L # <<>> /\ L[1] = h[1] /\ BreaksFlattened(Tail(L), Tail(h))

(* get_default_semantics: "Variable <d>", "arb. unit" *)
DefaultName(d) == <<86, 97, 114, 105, 97, 98, 108, 101, 32>> \o Digits(d)
DefaultUnit == <<97, 114, 98, 46, 32, 117, 110, 105, 116>>
DefaultSymbol(d) == <<88, 95>> \o Digits(d)

FileLines(names, units, coords) ==
    <<Header(names, units)>> \o [k \in 1..Len(coords) |-> Row(coords[k])]

(* os.path.splitext: the extension starts at the last dot of the last path component,    *)
(* provided a character other than a dot precedes it within that component               *)
LastIdx(s, c) == IF \E i \in 1..Len(s) : s[i] = c THEN SetMax({i \in 1..Len(s) : s[i] = c}) ELSE 0
HasExt(path) ==
    LET sep == LastIdx(path, Slash) dot == LastIdx(path, Dot)
    IN dot > sep /\ \E j \in (sep + 1)..(dot - 1) : path[j] # Dot
TxtExt == <<Dot, 116, 120, 116>>
FinalPath(path) == IF HasExt(path) THEN path ELSE path \o TxtExt

(* the drawn contour line: the points in order, first point repeated, axes exchanged iff swap *)
PlotPt(p, swap) == IF swap THEN <<p[2], p[1]>> ELSE <<p[1], p[2]>>
Polyline(coords, swap) ==
    [k \in 1..(Len(coords) + 1) |-> PlotPt(coords[IF k > Len(coords) THEN 1 ELSE k], swap)]
SwapCols(arr, swap) == [k \in 1..Len(arr) |-> PlotPt(arr[k], swap)]

(* axis label: "<name>, $\it{<symbol>}$ (<unit>)" *)
AxisLabel(name, symbol, unit) ==
    name \o <<44, 32, 36, 92, 105, 116, 123>> \o symbol \o <<125, 36, 32, LPar>> \o unit \o <<RPar>>
=============================================================================
