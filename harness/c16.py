"""C16 - transformed models are exact push-forwards; Monte-Carlo conditionals match them.

M: TLC explores the support search of the rejection sampler (spec/SupportSearch.tla: the code's
   absolute threshold violates NoTailTruncation for down-scaled profiles - the design-level side
   of a known finding; the relative-threshold design holds) and the random-number threading of
   a transformed IFORM computation (spec/Transformed.tla; deviation 'marginal draws from the
   global stream' must violate Reproducible).
V: the shipped transformations, the Windmeier / non-zero EW models and perturbed models of the
   same structure are measured and judged by spec/Trace_C16.tla.
"""
import copy
import math
import warnings
from statistics import NormalDist

import numpy as np

from .common import Q, Qc, Machinery, import_virocon, REPO

LEVEL = "model_checking"
FACTOR = 2 * math.pi / 9.81
ND = NormalDist()


def clampq(x, scale, hi=2 * 10**9):
    return Qc(x, scale, 0, hi)


# ------------------------------------------------------------------------------ models


N_COND = [50000]     # size of the conditional samples (quick: 25000; the DKW radius follows the size)


def fitted_models(vc, rng, n_random):
    data = vc.read_ec_benchmark_dataset(str(REPO / "datasets" / "ec-benchmark_dataset_A_1year.txt")).values
    out = []
    for getter in ("get_Windmeier_EW_Hs_S", "get_Nonzero_EW_Hs_S"):
        dd, fd, sem, tr = getattr(vc, getter)()
        base = vc.GlobalHierarchicalModel(dd)
        with warnings.catch_warnings():
            warnings.simplefilter("ignore")
            base.fit(tr["transform"](data), fd)
        out.append((getter.replace("get_", ""), base, tr))
    # random Hs-steepness models of the same structure: perturb the fitted parameters
    for j in range(n_random):
        name, b0, tr = out[j % 2]
        b = copy.deepcopy(b0)
        d0 = b.distributions[0]
        d0.alpha, d0.beta, d0.delta = (float(v) * rng.uniform(0.85, 1.15) for v in (d0.alpha, d0.beta, d0.delta))
        for f in b.distributions[1].conditional_parameters.values():
            f.parameters = {k: float(v) * rng.uniform(0.9, 1.1) for k, v in f.parameters.items()}
        out.append((f"{name}-perturbed{j}", b, tr))
    return out


def narrow_models(vc, rng, n_random):
    """Hs-steepness models of the shipped structures whose conditional law of Tz is NARROW at bulk values of Hs
    (it fits into one or two steps of the support search grid 100 * 0.7^k); (name, base, tr, Hs quantile).
    The first four are the models of defect D58, the others seeded variants within a factor 2 of them."""
    fixed = [
        ("N round median", "get_Nonzero_EW_Hs_S", (1.5, 0.8, 6), (0.04, 0.5), (1.5, 2.0), 0.5),
        ("W round 75%", "get_Windmeier_EW_Hs_S", (1.5, 0.8, 6), (0.05, 1.0), (1.5, 2.0), 0.75),
        ("W round 90% stepped-over", "get_Windmeier_EW_Hs_S", (1.5, 0.8, 4), (0.06, 0.5), (1.0, 2.0), 0.9),
        ("W near dataset-C fit 90%", "get_Windmeier_EW_Hs_S", (0.3558 * 1.441, 0.7722 * 0.707, 5.373 * 0.837),
         (0.04245 * 1.349, 0.988 * 0.781), (1.385 * 1.022, 0.856 * 1.782), 0.9),
    ]
    cases = list(fixed)
    for j in range(n_random):
        lab, getter, hp, ap, bp, q = fixed[j % 4]
        f = lambda t: tuple(float(v) * float(rng.uniform(0.75, 1.33)) for v in t)  # noqa
        cases.append((f"{lab} variant{j}", getter, f(hp), f(ap), f(bp), float(rng.choice([0.5, 0.75, 0.9]))))
    out = []
    for lab, getter, hp, ap, bp, q in cases:
        dd, fd, sem, tr = getattr(vc, getter)()
        dd[0]["distribution"] = vc.ExponentiatedWeibullDistribution(*hp)
        base = vc.GlobalHierarchicalModel(dd)
        cond = base.distributions[1]
        for pname, vals in (("alpha", ap), ("beta", bp)):
            fn = cond.conditional_parameters[pname]
            fn.parameters = dict(zip(list(fn.parameters.keys()), vals))
        out.append(("narrow:" + lab, base, tr, q))
    return out


def tmodel(vc, base, tr, pf=0.1, rs=None):
    return vc.TransformedModel(base, tr["transform"], tr["inverse"], tr["jacobian"], precision_factor=pf, random_state=rs)


def exact_tz_cdf(base, t, hs):
    """P(Tz <= t | Hs = hs) from the base model's conditional steepness distribution (monotone transform)"""
    t = np.asarray(t, dtype=float)
    s = FACTOR * hs / (t * t)
    return 1.0 - np.asarray(base.distributions[1].cdf(s, given=hs), dtype=float)


# ------------------------------------------------------------------------------ records


def rec_roundtrip(vc, rid, name, fwd, inv, jac, npts):
    g = np.logspace(-3, 2, npts)
    A, B = np.meshgrid(g, g)
    a, b = A.ravel(), B.ravel()
    r = dict(id=rid, kind="roundtrip", exc="", name=name, jac=-1)
    try:
        u, v = fwd(a, b)
        a2, b2 = inv(u, v)
        rt = max(np.max(np.abs(a2 - a) / a), np.max(np.abs(b2 - b) / b))
        r["rt"] = clampq(rt, 1e12)
        if jac is not None:
            h = 1e-5
            J = np.empty((len(a), 2, 2))
            for k, (da, db) in enumerate(((1, 0), (0, 1))):
                up = fwd(a * (1 + h * da), b * (1 + h * db))
                dn = fwd(a * (1 - h * da), b * (1 - h * db))
                step = 2 * h * (a if da else b)
                J[:, 0, k] = (up[0] - dn[0]) / step
                J[:, 1, k] = (up[1] - dn[1]) / step
            det = np.abs(J[:, 0, 0] * J[:, 1, 1] - J[:, 0, 1] * J[:, 1, 0])
            jv = np.asarray(jac(a, b), dtype=float)
            r["jac"] = clampq(np.max(np.abs(jv - det) / det), 1e9)
    except Exception as e:  # noqa
        r["exc"] = f"{type(e).__name__}: {e}"[:200]
    return r


def rec_pushforward(vc, rid, name, base, tr, rng, quick):
    t = tmodel(vc, base, tr)
    r = dict(id=rid, kind="pushforward", exc="", name=name, mass=-1)
    try:
        hs = rng.uniform(0.2, 9.0, 200)
        tz = rng.uniform(2.0, 16.0, 200)
        x = np.c_[hs, tz]
        f = np.asarray(t.pdf(x), dtype=float)
        h = 1e-5

        def T(xx):
            return np.asarray(tr["transform"](xx), dtype=float)

        J = np.empty((len(x), 2, 2))
        for k in range(2):
            e = np.zeros(2)
            e[k] = 1
            st = h * x[:, k]
            up, dn = T(x + e * st[:, None]), T(x - e * st[:, None])
            J[:, :, k] = (up - dn) / (2 * st[:, None])
        det = np.abs(J[:, 0, 0] * J[:, 1, 1] - J[:, 0, 1] * J[:, 1, 0])
        ref = np.asarray(base.pdf(T(x)), dtype=float) * det
        ok = ref > 1e-12
        r["pdev"] = clampq(np.max(np.abs(f[ok] - ref[ok]) / ref[ok]) if ok.any() else 0.0, 1e9)
        r["nonneg"] = bool(np.all(f >= 0))
        # total mass: Simpson in log-coordinates over a box that holds all but < 1e-6 of the mass
        n = 401 if quick else 801
        lh = np.linspace(math.log(1e-3), math.log(40.0), n)
        lt = np.linspace(math.log(0.2), math.log(80.0), n)
        LH, LT = np.meshgrid(lh, lt, indexing="ij")
        pts = np.c_[np.exp(LH).ravel(), np.exp(LT).ravel()]
        with np.errstate(all="ignore"):
            dens = np.nan_to_num(np.asarray(t.pdf(pts), dtype=float)).reshape(n, n) * np.exp(LH) * np.exp(LT)
        w = np.ones(n)
        w[1:-1:2], w[2:-1:2] = 4, 2
        mass = (lh[1] - lh[0]) / 3 * (lt[1] - lt[0]) / 3 * float(w @ dens @ w)
        r["mass"] = clampq(mass, 1e9)
    except Exception as e:  # noqa
        r["exc"] = f"{type(e).__name__}: {e}"[:200]
    return r


def rec_cdfemp(vc, rid, name, base, tr, rng):
    t = tmodel(vc, base, tr)
    r = dict(id=rid, kind="cdfemp", exc="", name=name)
    try:
        n = 200000
        np.random.seed(int(rng.integers(0, 2**31)))
        sample = t.draw_sample(n)
        x = np.array([[float(np.quantile(sample[:, 0], 0.6)), float(np.quantile(sample[:, 1], 0.7))]])
        with warnings.catch_warnings():
            warnings.simplefilter("ignore")
            c = float(t.cdf(x)[0])
        e = float(t.empirical_cdf(x, sample=sample)[0])
        r.update(n=n, d4=clampq(abs(c - e), 1e4))
    except Exception as e:  # noqa
        r["exc"] = f"{type(e).__name__}: {e}"[:200]
    return r


def rec_cdfemp_refit(vc, rid, name, rng):
    """history: empirical_cdf (fills the lazy 1e6-sample cache) -> fit to another data set -> empirical_cdf again;
    the second value is compared with the empirical cdf of a fresh sample of the re-fitted model (two-sample DKW)."""
    r = dict(id=rid, kind="cdfemp", exc="", name=name + " after re-fit")
    try:
        getter = "get_Nonzero_EW_Hs_S" if "Nonzero" in name else "get_Windmeier_EW_Hs_S"
        dd, fd, sem, tr = getattr(vc, getter)()
        A = vc.read_ec_benchmark_dataset(str(REPO / "datasets" / "ec-benchmark_dataset_A_1year.txt")).values
        C = vc.read_ec_benchmark_dataset(str(REPO / "datasets" / "ec-benchmark_dataset_C_1year.txt")).values
        t = tmodel(vc, vc.GlobalHierarchicalModel(dd), tr)
        x = np.array([[2.0, 6.0]])
        with warnings.catch_warnings():
            warnings.simplefilter("ignore")
            import copy as _c
            t.fit(A, _c.deepcopy(fd))
            np.random.seed(int(rng.integers(0, 2**31)))
            t.empirical_cdf(x)
            t.fit(C, _c.deepcopy(fd))
            e2 = float(t.empirical_cdf(x)[0])
            n = 400000
            s = t.draw_sample(n)
        e3 = float((s <= x).all(axis=1).mean())
        # both are empirical: the cached sample has 1e6 points, the fresh one n: use the smaller size for the DKW radius (x2 for two samples)
        r.update(n=n // 4, d4=clampq(abs(e2 - e3), 1e4))
    except Exception as e:  # noqa
        r["exc"] = f"{type(e).__name__}: {e}"[:200]
    return r


def recs_cache_history(vc, nid, getter, hist, rng):
    """One history emitted by SampleCache.tla (fitT = TransformedModel.fit, fitB = the wrapped model fitted directly,
    read = empirical_cdf) replayed on a real TransformedModel; one "cdfemp" record per read: the value is compared with
    the empirical cdf of a fresh sample of the model as it is at that moment (two-sample DKW)."""
    out = []
    label = " ".join(hist)
    try:
        import copy as _c
        dd, fd, sem, tr = getattr(vc, getter)()
        sets = [vc.read_ec_benchmark_dataset(str(REPO / "datasets" / f"ec-benchmark_dataset_{k}_1year.txt")).values for k in "AC"]
        t = tmodel(vc, vc.GlobalHierarchicalModel(dd), tr)
        x = np.array([[2.0, 6.0]])
        nfit = 0
        with warnings.catch_warnings():
            warnings.simplefilter("ignore")
            t.fit(sets[0], _c.deepcopy(fd))
            for i, op in enumerate(hist):
                if op == "fitT":
                    nfit += 1
                    t.fit(sets[nfit % 2], _c.deepcopy(fd))
                elif op == "fitB":
                    nfit += 1
                    t.model.fit(tr["transform"](sets[nfit % 2]), _c.deepcopy(fd))
                else:
                    np.random.seed(int(rng.integers(0, 2**31)))
                    e2 = float(t.empirical_cdf(x)[0])
                    n = 400000
                    fresh = t.draw_sample(n)
                    e3 = float((fresh <= x).all(axis=1).mean())
                    out.append(dict(id=nid(), kind="cdfemp", exc="", name=f"{getter[4:]} cache history [{label}] read@{i}",
                                    n=n // 4, d4=clampq(abs(e2 - e3), 1e4)))
    except Exception as e:  # noqa
        out.append(dict(id=nid(), kind="cdfemp", exc=f"{type(e).__name__}: {e}"[:200], name=f"{getter[4:]} cache history [{label}]"))
    return out


def rec_samples(vc, rid, name, base, tr, rng, n):
    t = tmodel(vc, base, tr)
    r = dict(id=rid, kind="samples", exc="", name=name)
    try:
        k = int(rng.integers(0, 2**31))
        np.random.seed(k)
        a = t.draw_sample(n)
        np.random.seed(k)
        b = tr["inverse"](base.draw_sample(n))
        a2 = t.draw_sample(n, random_state=k)
        b2 = tr["inverse"](base.draw_sample(n, random_state=k))
        r["equal"] = bool(np.array_equal(a, b) and np.array_equal(a2, b2))
        r["shapeok"] = bool(np.shape(a) == (n, 2) and np.shape(a2) == (n, 2))
    except Exception as e:  # noqa
        r["exc"] = f"{type(e).__name__}: {e}"[:200]
    return r


def rec_seeded_cache(vc, rid, name, base, tr):
    """the lazily drawn sample honours the model's random_state (D60): two identically seeded objects give the same
    empirical cdf, another seed a different one"""
    r = dict(id=rid, kind="samples", exc="", name=name + " seeded sample cache")
    try:
        x = np.array([[2.0, 6.0], [3.0, 7.5]])
        e = []
        for rs in (42, 42, 43):
            t = tmodel(vc, copy.deepcopy(base), tr, rs=rs)
            e.append(np.asarray(t.empirical_cdf(x), dtype=float))
        r["equal"] = bool(np.array_equal(e[0], e[1]) and not np.array_equal(e[0], e[2]))
        r["shapeok"] = bool(e[0].shape == (2,))
    except Exception as ex:  # noqa
        r["exc"] = f"{type(ex).__name__}: {ex}"[:200]
    return r


def rec_int_points(vc, rid, name, base, tr):
    """integer-typed evaluation points and transformation arguments give the numbers of the same values as floats
    (D86: int8 / int16 points overflowed in tz * tz and tz ** 3)"""
    r = dict(id=rid, kind="samples", exc="", name=name + " integer-typed points")
    try:
        t = tmodel(vc, base, tr)
        vt = vc.variable_transform
        ok = True
        pts = np.array([[2, 6], [3, 7], [9, 33], [1, 12]])
        ref = np.asarray(t.pdf(pts.astype(float)), dtype=float)
        for dt in ("int8", "uint8", "int16", "int32", "int64"):
            ok = ok and np.array_equal(np.asarray(t.pdf(pts.astype(dt)), dtype=float), ref)
        hs, tz = np.array([2, 5, 9]), np.array([12, 9, 33])
        for f in (vt.hs_tz_to_s_d, vt.hs_tz_to_hs_s, vt.hs_tz_to_s_tz):
            a = [np.asarray(v, dtype=float) for v in f(hs.astype(float), tz.astype(float))]
            for dt in ("int8", "int16", "int64"):
                b = [np.asarray(v, dtype=float) for v in f(hs.astype(dt), tz.astype(dt))]
                ok = ok and all(np.array_equal(u, v) for u, v in zip(a, b))
        r["equal"] = bool(ok)
        r["shapeok"] = bool(ref.shape == (4,) and np.all(ref >= 0))
    except Exception as ex:  # noqa
        r["exc"] = f"{type(ex).__name__}: {ex}"[:200]
    return r


def rec_cond_size(vc, rid, name, base, tr):
    """conditional_sample returns exactly n values, and warns only if it could not collect them, whatever max_iter (D61)"""
    r = dict(id=rid, kind="samples", exc="", name=name + " conditional_sample size")
    try:
        t = tmodel(vc, base, tr)
        hs = float(base.distributions[0].icdf(0.5))
        ok, quiet = True, True
        for max_iter in (1, 2, 3, 5, 100):
            with warnings.catch_warnings(record=True) as wl:
                warnings.simplefilter("always")
                smp = np.asarray(t.conditional_sample(1000, 1, [hs], random_state=1, max_iter=max_iter))
            warned = any("Max iterations" in str(w.message) for w in wl)
            ok = ok and (len(smp) == 1000 or (len(smp) < 1000 and warned))
            quiet = quiet and not (len(smp) >= 1000 and warned)
        r["equal"] = bool(quiet)
        r["shapeok"] = bool(ok)
    except Exception as ex:  # noqa
        r["exc"] = f"{type(ex).__name__}: {ex}"[:200]
    return r


def rec_cond(vc, rid, name, base, tr, q, rng):
    t = tmodel(vc, base, tr)
    r = dict(id=rid, kind="cond", exc="", name=name, q=str(q), hooked=False, k=-1, atfloor=False, fat=False, fnext=True,
             tail=0, sampled=False, ks4=0, n=1, cdf4=0, ncdf=1, icdf4=0, nicdf=1, intsame=True)
    hs = float(base.distributions[0].icdf(q))
    sink = []
    try:
        from virocon import _verif
        _verif.set_sink(sink)
    except Exception:
        _verif = None
    try:
        n = N_COND[0]
        seed = int(rng.integers(0, 2**31))
        with warnings.catch_warnings():
            warnings.simplefilter("ignore")
            try:
                smp = np.asarray(t.conditional_sample(n, 1, [hs], random_state=seed), dtype=float)
            except Exception as e:  # noqa  (CouldNotSampleError at very extreme values)
                smp = None
                r["sampleexc"] = type(e).__name__
        ev = [f for (nm, f) in sink if nm == "cond_sample_support"]
        if ev:
            f = ev[0]
            xm = f["x_max"]
            kk = math.log(xm / 100.0) / math.log(0.7)
            r["hooked"] = True
            r["k"] = int(round(kk)) if abs(kk - round(kk)) < 1e-6 else (-1 if xm > 0.05 + 1e-12 else int(round(kk)))
            r["atfloor"] = bool(abs(xm - 0.05) < 1e-12 or xm * 0.7 <= 0.05)
            pdf_at = lambda z: float(t.pdf(np.array([[hs, z]]))[0])  # noqa
            # the search since D76: x_max = (largest point of the dense grid geomspace(0.05, 100, 2000) whose density
            # reaches the effective threshold) / 0.7, capped at 100
            step = (100.0 / 0.05) ** (1.0 / 1999.0)
            r["fat"] = bool(pdf_at(xm * 0.7) >= f["f_threshold"])                 # the grid point itself is in the support
            r["fnext"] = bool(xm >= 100.0 - 1e-9 or pdf_at(xm * 0.7 * step) < f["f_threshold"])   # the next one is not
            r["k"] = 0
            r["tail"] = clampq(1.0 - float(exact_tz_cdf(base, xm, hs)), 1e9)
        if smp is not None and len(smp) >= 1000:
            xs = np.sort(smp)
            m = len(xs)
            F = exact_tz_cdf(base, xs, hs)
            ks = max(np.max(np.arange(1, m + 1) / m - F), np.max(F - np.arange(0, m) / m))
            r.update(sampled=True, ks4=clampq(ks, 1e4), n=m)
            if not r["hooked"]:
                r["tail"] = clampq(1.0 - float(exact_tz_cdf(base, float(xs[-1]) * 1.3, hs)), 1e9)
            # conditional_cdf / conditional_icdf (n = 100 000 inside)
            xq = np.quantile(xs, [0.2, 0.5, 0.9])
            with warnings.catch_warnings():
                warnings.simplefilter("ignore")
                pc = np.asarray(t.conditional_cdf(xq, 1, [[hs]] * 3, random_state=seed + 1), dtype=float)
                # integer-typed evaluation points must give the same numbers as the same points as floats
                xint = np.array([int(v) for v in np.ceil(xq)])
                pci = np.asarray(t.conditional_cdf(xint, 1, [[hs]] * 3, random_state=seed + 1), dtype=float)
                pcf = np.asarray(t.conditional_cdf(xint.astype(float), 1, [[hs]] * 3, random_state=seed + 1), dtype=float)
                r["intsame"] = bool(np.array_equal(pci, pcf))
                ps = np.array([0.1, 0.5, 0.9])
                xi = np.asarray(t.conditional_icdf(ps, 1, [[hs]] * 3, random_state=seed + 2), dtype=float)
            r.update(cdf4=clampq(np.max(np.abs(pc - exact_tz_cdf(base, xq, hs))), 1e4), ncdf=100000,
                     icdf4=clampq(np.max(np.abs(exact_tz_cdf(base, xi, hs) - ps)), 1e4), nicdf=100000)
    except Exception as e:  # noqa
        r["exc"] = f"{type(e).__name__}: {e}"[:200]
    finally:
        if _verif is not None:
            _verif.set_sink(None)
    return r


def rec_cond_dim0(vc, rid, name, base, tr, tz, rng):
    """Monte-Carlo conditional of the FIRST variable (Hs given Tz), which is bimodal for long periods; the reference
    is the model's own joint density integrated along Hs on a fine geometric grid (the density itself is judged by
    the push-forward records)."""
    t = tmodel(vc, base, tr)
    r = dict(id=rid, kind="cond", exc="", name=name + " Hs|Tz", q=f"tz={tz}", hooked=False, k=-1, atfloor=False, fat=False,
             fnext=True, tail=0, sampled=False, ks4=0, n=1, cdf4=0, ncdf=1, icdf4=0, nicdf=1, intsame=True)
    try:
        g = np.geomspace(1e-9, 300.0, 400001)
        with warnings.catch_warnings():
            warnings.simplefilter("ignore")
            f = np.asarray(t.pdf(np.c_[g, np.full_like(g, tz)]), dtype=float)
        f = np.where(np.isfinite(f), f, 0.0)
        cum = np.concatenate([[0.0], np.cumsum(0.5 * (f[1:] + f[:-1]) * np.diff(g))])
        tot = cum[-1]
        F = lambda z: np.interp(np.asarray(z, dtype=float), g, cum / tot)  # noqa
        n = N_COND[0]
        seed = int(rng.integers(0, 2**31))
        with warnings.catch_warnings():
            warnings.simplefilter("ignore")
            try:
                smp = np.asarray(t.conditional_sample(n, 0, [tz], random_state=seed), dtype=float)
            except Exception as e:  # noqa
                smp = None
                r["sampleexc"] = type(e).__name__
        if smp is not None and len(smp) >= 1000:
            xs = np.sort(smp)
            m = len(xs)
            Fx = F(xs)
            ks = max(np.max(np.arange(1, m + 1) / m - Fx), np.max(Fx - np.arange(0, m) / m))
            r.update(sampled=True, ks4=clampq(ks, 1e4), n=m, tail=clampq(1.0 - float(F(float(xs[-1]) * 1.3)), 1e9))
            ps = np.array([0.5, 0.9, 0.99])
            with warnings.catch_warnings():
                warnings.simplefilter("ignore")
                xi = np.asarray(t.conditional_icdf(ps, 0, [[tz]] * 3, random_state=seed + 2), dtype=float)
                xq = np.quantile(xs, [0.2, 0.5, 0.9])
                pc = np.asarray(t.conditional_cdf(xq, 0, [[tz]] * 3, random_state=seed + 1), dtype=float)
            r.update(cdf4=clampq(np.max(np.abs(pc - F(xq))), 1e4), ncdf=100000,
                     icdf4=clampq(np.max(np.abs(F(xi) - ps)), 1e4), nicdf=100000)
        else:
            r["tail"] = 10**9     # nothing was sampled although the conditional density exists
    except Exception as e:  # noqa
        r["exc"] = f"{type(e).__name__}: {e}"[:200]
    return r


def bimodal_cases(vc):
    """(name, base, tr, tz): Hs-steepness models whose conditional density of Hs given a long Tz has two modes (D76)"""
    out = []
    C = vc.read_ec_benchmark_dataset(str(REPO / "datasets" / "ec-benchmark_dataset_C_1year.txt")).values
    dd, fd, sem, tr = vc.get_Windmeier_EW_Hs_S()
    base = vc.GlobalHierarchicalModel(dd)
    with warnings.catch_warnings():
        warnings.simplefilter("ignore")
        base.fit(tr["transform"](C), fd)
    out.append(("bimodal:Windmeier fitted to C", base, tr, 14.5))
    tr0 = tr
    dd, fd, sem, tr = vc.get_Nonzero_EW_Hs_S()
    b2 = vc.GlobalHierarchicalModel(dd)
    d0, d1 = b2.distributions
    d0.alpha, d0.beta, d0.delta = 0.6938265467068199, 0.6558353452788112, 2.9594163458893794
    d1.conditional_parameters["alpha"].parameters = {"a": 0.09215253891129106, "b": 0.7513560377021065}
    d1.conditional_parameters["beta"].parameters = {"a": 0.9100546060034046, "b": 1.2036171498390844}
    out.append(("bimodal:Nonzero round", b2, tr, 12.0))
    # short periods: the conditional density of Hs reaches far below the lower end (0.05) of the support grid
    out.append(("lowtail:Nonzero round", b2, tr, 1.5))
    out.append(("lowtail:Windmeier fitted to C", base, tr0, 2.0))
    return out


def rec_cond_history(vc, rid, name, base0, tr, rng):
    """conditional_cdf / conditional_icdf with an integer random_state on ONE TransformedModel object: request,
    change the base model's parameters in place (as a re-fit does), repeat the identical request; the second
    answer is judged against the exact conditional law of the CHANGED model."""
    base = copy.deepcopy(base0)
    t = tmodel(vc, base, tr)
    r = dict(id=rid, kind="cond", exc="", name=name + " after-change", q="0.5", hooked=False, k=-1, atfloor=False, fat=False,
             fnext=True, tail=0, sampled=False, ks4=0, n=1, cdf4=0, ncdf=1, icdf4=0, nicdf=1, intsame=True)
    try:
        hs = float(base.distributions[0].icdf(0.5))
        seed = int(rng.integers(1, 2**31))
        ps = np.array([0.1, 0.5, 0.9])
        xq = np.array([float(v) for v in np.linspace(4.0, 9.0, 3)])
        with warnings.catch_warnings():
            warnings.simplefilter("ignore")
            t.conditional_cdf(xq, 1, [[hs]] * 3, random_state=seed)
            t.conditional_icdf(ps, 1, [[hs]] * 3, random_state=seed)
            for f in base.distributions[1].conditional_parameters.values():      # in-place change of the model
                f.parameters = {k: float(v) * 1.25 for k, v in f.parameters.items()}
            pc = np.asarray(t.conditional_cdf(xq, 1, [[hs]] * 3, random_state=seed), dtype=float)
            xi = np.asarray(t.conditional_icdf(ps, 1, [[hs]] * 3, random_state=seed), dtype=float)
        r.update(sampled=True, cdf4=clampq(np.max(np.abs(pc - exact_tz_cdf(base, xq, hs))), 1e4), ncdf=100000,
                 icdf4=clampq(np.max(np.abs(exact_tz_cdf(base, xi, hs) - ps)), 1e4), nicdf=100000, n=100000)
    except Exception as e:  # noqa
        r["exc"] = f"{type(e).__name__}: {e}"[:200]
    return r


def rec_iform(vc, rid, name, base, tr, alpha, npoints, pf, seed):
    r = dict(id=rid, kind="iform", exc="", name=name, npoints=npoints, d0=[], d1=[], n0=1, n1=[], repro=True, seedmatters=True,
             reproaftercache=True)
    try:
        with warnings.catch_warnings():
            warnings.simplefilter("ignore")
            t = tmodel(vc, base, tr, pf=pf, rs=seed)
            c1 = np.asarray(vc.IFORMContour(t, alpha, n_points=npoints).coordinates, dtype=float)
            c2 = np.asarray(vc.IFORMContour(tmodel(vc, base, tr, pf=pf, rs=seed), alpha, n_points=npoints).coordinates, dtype=float)
            c3 = np.asarray(vc.IFORMContour(tmodel(vc, base, tr, pf=pf, rs=seed + 1), alpha, n_points=npoints).coordinates, dtype=float)
        # history: the same model object after its lazy 1e6-sample cache was filled (empirical_cdf / .sample)
        # must still give exactly the contour of a fresh model with the same random_state
        with warnings.catch_warnings():
            warnings.simplefilter("ignore")
            t4 = tmodel(vc, base, tr, pf=pf, rs=seed)
            t4.empirical_cdf(np.array([[1.0, 5.0]]))
            c4 = np.asarray(vc.IFORMContour(t4, alpha, n_points=npoints).coordinates, dtype=float)
            c5 = np.asarray(vc.IFORMContour(t4, alpha, n_points=npoints).coordinates, dtype=float)
        r["reproaftercache"] = bool(np.array_equal(c4, c5) and np.array_equal(c4, c1))
        r["repro"] = bool(np.array_equal(c1, c2))
        r["seedmatters"] = bool(not np.array_equal(c1, c3))
        beta = ND.inv_cdf(1 - alpha)
        th = [2 * math.pi * k / npoints for k in range(npoints)]
        p0 = np.array([ND.cdf(beta * math.cos(a)) for a in th])
        p1 = np.array([ND.cdf(beta * math.sin(a)) for a in th])
        psmall = float(min(p0.min(), 1 - p0.max()))
        r["n0"] = max(int((1 / psmall) * 100 * pf), 100000)
        F0 = np.asarray(base.distributions[0].cdf(c1[:, 0]), dtype=float)
        r["d0"] = [clampq(abs(a - b), 1e4) for a, b in zip(F0, p0)]
        d1, n1 = [], []
        for k in range(len(c1)):
            F1 = float(exact_tz_cdf(base, c1[k, 1], c1[k, 0]))
            d1.append(clampq(abs(F1 - p1[k]), 1e4))
            ps = p1[k] if p1[k] < 0.5 else 1 - p1[k]
            n1.append(int(min(max((1 / ps) * 100 * pf, 100000), 10000000)))
        r.update(d1=d1, n1=n1)
    except Exception as e:  # noqa
        r["exc"] = f"{type(e).__name__}: {e}"[:200]
    return r


def rec_marginal_mc(vc, rid, name, base, tr, seedkind, seed, n):
    """the Monte-Carlo marginal quantile (first coordinate of the transformed IFORM) on a fine probability grid:
    sup |F_0(marginal_icdf(p)) - p| must be within the DKW radius of the documented sample size
    n = 100 * precision_factor / p_small - whatever the TYPE of the seed (Python int, numpy integer, Generator, global RNG)."""
    r = dict(id=rid, kind="margmc", exc="", name=f"{name} marginal_icdf seed={seedkind}", d0=[], n0=n)
    try:
        t = tmodel(vc, base, tr, pf=1.0)
        ps = np.r_[100.0 / n, np.linspace(0.02, 0.98, 193)]
        rs = {"int": seed, "npint": np.int64(seed), "npuint": np.uint32(seed), "generator": np.random.default_rng(seed), "global": None}[seedkind]
        np.random.seed(seed % 2**32)
        with warnings.catch_warnings():
            warnings.simplefilter("ignore")
            x = np.asarray(t.marginal_icdf(ps, 0, random_state=rs), dtype=float)
        F0 = np.asarray(base.distributions[0].cdf(x), dtype=float)
        r["d0"] = [clampq(abs(a - b), 1e4) for a, b in zip(F0, ps)]
    except Exception as e:  # noqa
        r["exc"] = f"{type(e).__name__}: {e}"[:200]
    return r


def key_of(r):
    k = r["kind"]
    if k == "cond":
        return f"cond model={r['name']} hs_quantile={r['q']}"
    if k == "iform":
        return f"iform model={r['name']} alpha={r.get('alpha')} n_points={r['npoints']} pf={r.get('pf')}"
    return f"{k} {r['name']}"


def run(ctx):
    vc = import_virocon()
    vt = vc.variable_transform
    rng = np.random.default_rng(ctx.seed + 16)
    ctx.rule = ("transform pairs on a log-spaced lattice over (1e-3,1e2); Windmeier / non-zero EW models fitted to dataset A (1 year) and "
                "seeded perturbations of them; push-forward at 200 random points + total mass; cdf vs empirical cdf; seeded samples; "
                "conditional sample/cdf/icdf of Tz given Hs at Hs-quantiles from 0.5 to 0.9999; transformed IFORM contours; distinct = "
                "(kind, model, parameters of the case)")
    ctx.trusted = ["TLC evaluating Trace_C16 (DKW at 1e-12 in integer arithmetic)",
                   "exact conditional law of Tz given Hs from the base model's conditional steepness distribution and the monotone transform",
                   "central differences (h=1e-5 relative) for |det dT/dx|; Simpson rule in log-coordinates for the total mass",
                   "hook event cond_sample_support (x_max bound to truth by re-evaluating the joint pdf at x_max and 0.7 x_max)"]
    ctx.assumptions = ["Monte-Carlo sizes n0/n1 of the transformed IFORM are recomputed in the driver with the documented sizing rule",
                       "conditional laws are checked for the second variable (Tz given Hs), where an exact reference exists"]
    ctx.model_check("SupportSearch", "MC_SupportSearch_current.cfg", must_cover=("Dense",))
    # the search up to D58 (first grid value above the threshold) cuts into / steps over narrow profiles
    ctx.model_check("SupportSearch", "MC_SupportSearch_firstabove.cfg", expect_violation="NoTailTruncation")
    # D58 .. D76 (the grid value before it) still steps over the upper mode of a bimodal profile
    ctx.model_check("SupportSearch", "MC_SupportSearch_stepback.cfg", expect_violation="NoTailTruncation")
    # up to D77 the absolute threshold found nothing in a profile that an extreme conditioning value scaled down
    ctx.model_check("SupportSearch", "MC_SupportSearch_absolute.cfg", expect_violation="NoTailTruncation")
    ctx.model_check("SampleCache", "MC_SampleCache_tagged.cfg", must_cover=("FitTransformed", "FitBase", "Read"))
    ctx.model_check("SampleCache", "MC_SampleCache_fitonly.cfg", expect_violation="CacheCurrent")
    ctx.model_check("SampleCache", "MC_SampleCache_never.cfg", expect_violation="CacheCurrent")
    ctx.model_check("Transformed", "MC_Transformed.cfg", must_cover=("Compute",))
    ctx.model_check("Transformed", "MC_Transformed_mut.cfg", expect_violation="Reproducible")
    ctx.model_check("Transformed", "MC_Transformed_cache.cfg", expect_violation="Reproducible")

    N_COND[0] = ctx.pick(25000, 50000)
    models = fitted_models(vc, rng, ctx.pick(2, 8))
    recs = []
    rid = [0]

    def add(r):
        recs.append(r)

    def nid():
        rid[0] += 1
        return rid[0]

    npts = ctx.pick(14, 40)
    add(rec_roundtrip(vc, nid(), "hs_tz<->s_d", vt.hs_tz_to_s_d, vt.s_d_to_hs_tz, None, npts))
    add(rec_roundtrip(vc, nid(), "s_d<->hs_tz", vt.s_d_to_hs_tz, vt.hs_tz_to_s_d, None, npts))
    add(rec_roundtrip(vc, nid(), "hs_tz<->hs_s", vt.hs_tz_to_hs_s, vt.hs_s_to_hs_tz, None, npts))
    add(rec_roundtrip(vc, nid(), "hs_s<->hs_tz", vt.hs_s_to_hs_tz, vt.hs_tz_to_hs_s, None, npts))
    add(rec_roundtrip(vc, nid(), "hs_tz<->s_tz", vt.hs_tz_to_s_tz, vt.s_tz_to_hs_tz, None, npts))
    add(rec_roundtrip(vc, nid(), "s_tz<->hs_tz", vt.s_tz_to_hs_tz, vt.hs_tz_to_s_tz, None, npts))
    for name, base, tr in models[:2]:
        f = lambda a, b, tr=tr: tuple(np.asarray(tr["transform"](np.c_[a, b])).T)  # noqa
        g = lambda a, b, tr=tr: tuple(np.asarray(tr["inverse"](np.c_[a, b])).T)  # noqa
        j = lambda a, b, tr=tr: tr["jacobian"](np.c_[a, b])  # noqa
        add(rec_roundtrip(vc, nid(), f"{name} transform/inverse/jacobian", f, g, j, npts))
        add(rec_roundtrip(vc, nid(), f"{name} inverse/transform", g, f, None, npts))
    for name, base, tr in models:
        add(rec_pushforward(vc, nid(), name, base, tr, rng, ctx.quick))
        add(rec_samples(vc, nid(), name, base, tr, rng, int(rng.choice([1, 10, 1000, 100000]))))
    add(rec_seeded_cache(vc, nid(), models[ctx.seed % 2][0], models[ctx.seed % 2][1], models[ctx.seed % 2][2]))
    add(rec_cond_size(vc, nid(), models[0][0], models[0][1], models[0][2]))
    add(rec_int_points(vc, nid(), models[(ctx.seed + 1) % 2][0], models[(ctx.seed + 1) % 2][1], models[(ctx.seed + 1) % 2][2]))
    if not ctx.quick:
        # a conditional so narrow that the rejection sampler reaches its iteration limit and returns a SHORT sample (D85:
        # conditional_cdf divided by the requested size); slow (100 iterations), thorough tier only
        dd, fd, sem, trw = vc.get_Windmeier_EW_Hs_S()
        dd[0]["distribution"] = vc.ExponentiatedWeibullDistribution(1.5, 0.69, 8)
        bw = vc.GlobalHierarchicalModel(dd)
        cw = bw.distributions[1]
        cw.conditional_parameters["alpha"].parameters = dict(zip(list(cw.conditional_parameters["alpha"].parameters), (0.08, 1.0)))
        cw.conditional_parameters["beta"].parameters = dict(zip(list(cw.conditional_parameters["beta"].parameters), (1.4, 4.0)))
        add(rec_cond(vc, nid(), "short-sample:Windmeier steep beta", bw, trw, 0.999999, rng))
    # sizes above one million (block-wise drawing must not restart the seeded stream)
    for name, base, tr in models[:ctx.pick(1, 3)]:
        add(rec_samples(vc, nid(), name + " n>1e6", base, tr, rng, ctx.pick(1200000, 3500000)))
    for name, base, tr in models[:ctx.pick(1, 3)]:
        add(rec_cdfemp(vc, nid(), name, base, tr, rng))
    add(rec_cdfemp_refit(vc, nid(), ["Nonzero_EW_Hs_S", "Windmeier_EW_Hs_S"][ctx.seed % 2], rng))
    # life cycle of the lazily drawn sample: histories emitted by SampleCache.tla
    hists = [h["hist"] for h in ctx.generate("SampleCache", "Gen_SampleCache.cfg")]
    crit = [h for h in hists if any(h[i] == "read" and "fitB" in h[i + 1:j] and h[j] == "read"
                                    for i in range(len(h)) for j in range(i + 1, len(h)))]
    if ctx.quick:
        rest = [h for h in hists if h not in crit]
        hists = crit[:2] + [rest[int(k)] for k in rng.choice(len(rest), 2, replace=False)]
    for hi, h in enumerate(hists):
        for r in recs_cache_history(vc, nid, ["get_Nonzero_EW_Hs_S", "get_Windmeier_EW_Hs_S"][(hi + ctx.seed) % 2], h, rng):
            add(r)
    qs = ctx.pick([0.5, 0.99, 0.9999], [0.1, 0.5, 0.9, 0.99, 0.999, 0.9999, 0.99999])
    for mi, (name, base, tr) in enumerate(models[:ctx.pick(2, 6)]):
        # quick: the full quantile ladder for the first model, the two ends for the second
        for q in (qs if (mi == 0 or not ctx.quick) else [qs[-1]]):
            add(rec_cond(vc, nid(), name, base, tr, q, rng))
    for name, base, tr, q in narrow_models(vc, rng, ctx.pick(0, 16)):
        add(rec_cond(vc, nid(), name, base, tr, q, rng))
    for bi, (name, base, tr, tz) in enumerate(bimodal_cases(vc)):
        if ctx.quick and bi == 3:
            continue            # quick: one short-period record
        add(rec_cond_dim0(vc, nid(), name, base, tr, tz, rng))
    # beyond the 1 - 1e-7 quantile the whole joint-density profile lies below the former absolute threshold (D77)
    for name, base, tr in models[:ctx.pick(1, 2)]:
        for q in ctx.pick([0.9999999], [0.999999, 0.9999999, 0.99999999]):
            add(rec_cond(vc, nid(), name, base, tr, q, rng))
    for name, base, tr in models[:ctx.pick(1, 3)]:
        add(rec_cond_history(vc, nid(), name, base, tr, rng))
    icases = ctx.pick([(0, 0.05, 6, 0.1)], [(0, 0.05, 8, 0.1), (1, 0.02, 8, 0.5), (2, 0.05, 6, 1.0), (3, 0.1, 10, 0.2)])
    for ci, (mi, alpha, npoints, pf) in enumerate(icases + [(1, 0.1, 4, 0.1)]):
        name, base, tr = models[mi % len(models)]
        # the last case uses the integer seed 0 (a falsy but valid random_state)
        r = rec_iform(vc, nid(), name, base, tr, alpha, npoints, pf, 0 if ci == len(icases) else int(rng.integers(0, 2**31)))
        r.update(alpha=alpha, pf=pf)
        add(r)
    # seed TYPES are an input class: a numpy integer is as good a seed as a Python int (several blocks of the
    # minimum sample size are needed: n = 1e7 quick / thorough)
    name, base, tr = models[0]
    for sk in ctx.pick(["npint"], ["npint", "int", "npuint", "generator", "global"]):
        add(rec_marginal_mc(vc, nid(), name, base, tr, sk, int(rng.integers(1, 2**31)), 10000000))
    failing = ctx.validate("Trace_C16", "Trace_C16.cfg", recs)
    for r in recs:
        ctx.case(key_of(r), nontrivial=r["exc"] == "")
        for clause in failing.get(r["id"], []):
            ctx.violation(clause, key_of(r), str({k: v for k, v in r.items() if k not in ("id",)})[:900], replay=None)
    ctx.sample(next(r for r in recs if r["kind"] == "cond"))
    ctx.sample(next(r for r in recs if r["kind"] == "iform"))
    conf = [x for x in (ctx.work / "tlc_Trace_C16_Trace_C16.log").read_text().split("\n") if x.startswith('<<"CONFORMANT"')]
    ctx.notes["cond_records_conforming_to_SupportSearch_spec"] = len(conf)
    if not conf:
        ctx.assumptions.append("no recorded support search was a behaviour of SupportSearch.tla (hook absent or search refactored): "
                               "only the law-level clauses were judged")
    ctx.notes.update(records_by_kind={k: sum(1 for r in recs if r["kind"] == k) for k in
                                      ("roundtrip", "pushforward", "cdfemp", "samples", "cond", "iform", "margmc")},
                     cond_records_with_hook=sum(1 for r in recs if r["kind"] == "cond" and r["hooked"]))
    # growth beyond the listed property: documented Monte-Carlo sizing rules and the axes table
    from . import ext_sizing
    ext_sizing.run_ext(ctx, vc)
    # binding self-test
    bad = dict(next(r for r in recs if r["kind"] == "samples"), id=1, equal=False)
    if "SamplesAreInverseImages" not in ctx.validate("Trace_C16", "Trace_C16.cfg", [bad]).get(1, []):
        raise Machinery("self-test: corrupted record was not rejected")
