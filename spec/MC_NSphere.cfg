SPECIFICATION Spec
CONSTANTS MaxIters = 5  Energies = {1, 2, 3, 4}  KeepLast = FALSE
CHECK_DEADLOCK FALSE
INVARIANT NeverWorseThanStart
INVARIANT ReturnsBestSeen
INVARIANT IterationCount
