#!/bin/sh
# run all checks of one tier (default quick), 4 at a time; summary in .work/<tier>/summary.txt
tier=${1:-quick}
mkdir -p .work/$tier
: > .work/$tier/summary.txt
for c in C01 C02 C03 C04 C05 C06 C07 C08 C09 C10 C11 C12 C13 C14 C15 C16 C17 C18 C19 C20; do echo $c; done | xargs -P ${PAR:-4} -I{} sh -c 's=$(date +%s); timeout 14000 ./check {} --tier '$tier' > .work/'$tier'/{}.out 2>&1; rc=$?; echo "{} rc=$rc $(( $(date +%s) - s ))s $(tail -1 .work/'$tier'/{}.out | cut -c1-200)" >> .work/'$tier'/summary.txt'
sort .work/$tier/summary.txt
