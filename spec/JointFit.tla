------------------------------ MODULE JointFit ------------------------------
(* GlobalHierarchicalModel.fit as a state machine over abstract rows.                   *)
(*                                                                                      *)
(* A data matrix is a sequence of rows; row r has an identity and, for every            *)
(* conditioning dimension, a lattice value.  Fitting dimension i that is conditional on *)
(* c = Cond[i]:  Slice (masks over the POSITIONS of the data as given, from the width   *)
(* slicer of SlicingOps on column c) -> DropSmall -> FitIntervals (the estimate of an   *)
(* interval is an uninterpreted, order-insensitive function of the multiset of rows it  *)
(* received, represented by that set of row identities, tagged with the fit option of   *)
(* dimension i) -> FitDependence (x = references, y = estimates).                       *)
(* The data are presented in an arbitrary order `perm`; the result must not depend on   *)
(* it.  MaskSpace = "sorted" is the deviation "masks refer to the sorted order"         *)
(* (the PointsPerIntervalSlicer defect) and must violate the invariants.                *)
(* A dimension may be fitted with one weight per observation (option "wlsqarr"): the    *)
(* weight of row r is identified with r, the array is presented in the same order as    *)
(* the rows, and each interval fit must receive exactly the weights of its own rows.    *)
(* WeightSpace = "unsliced" is the deviation "every interval is handed the whole array   *)
(* and indexes it with its own sort indices", i.e. it uses the weights of the first n_k  *)
(* positions (defect D46); it must violate IntervalOwnWeights.                           *)
EXTENDS SlicingOps, TLC

CONSTANTS NRows, MaxV, Upw, MinPts, NDim, MaskSpace, WeightSpace,
          Opts       \* fit option tokens a dimension may have

VARIABLES vals,      \* vals[d][r]: lattice value of row r in conditioning column d (d in 1..NDim-1)
          perm,      \* perm[j] = row presented at position j
          cond,      \* cond[i] in 0..i-1 for i in 2..NDim (0 = unconditional)
          opts,      \* opts[i]: fit option token of dimension i ("mle", "wlsq", "wlsqarr", "none" = entry is None)
          dim, pc,
          ivals,     \* ivals[i] = sequence of [idx, rows, opt, wts] for the kept intervals of dimension i
                     \* (wts = rows whose weights the interval fit received; {} without weight array)
          dep        \* dep[i] = [x, y] handed to the dependence functions of dimension i

vars == <<vals, perm, cond, opts, dim, pc, ivals, dep>>

Rows == 1..NRows
Perms == {p \in [Rows -> Rows] : \A r \in Rows : \E j \in Rows : p[j] = r}
OptOf(i) == IF opts[i] = "none" THEN "mle" ELSE opts[i]

Init == /\ vals \in [1..(NDim - 1) -> [Rows -> 0..MaxV]]
        /\ perm \in Perms
        /\ cond \in {c \in [2..NDim -> 0..(NDim - 1)] : \A i \in 2..NDim : c[i] < i}
        /\ opts \in [1..NDim -> Opts]
        /\ dim = 1 /\ pc = "next"
        /\ ivals = [i \in 1..NDim |-> <<>>] /\ dep = [i \in 1..NDim |-> <<>>]

(* the conditioning column as presented (position j holds row perm[j]) *)
Column(c) == [j \in Rows |-> vals[c][perm[j]]]
SortedPos(col) ==   \* position of j in the stable argsort of col
    [j \in Rows |-> Cardinality({k \in Rows : col[k] < col[j] \/ (col[k] = col[j] /\ k < j)}) + 1]

MasksFor(c) ==
    LET col == Column(c)
        K == WidthCount(0, SetMax(Range(col)), Upw)
        ideal == [j \in Rows |-> IdealIdx(col[j], 0, Upw, TRUE)]
    IN [k \in 1..K |->
          [j \in Rows |->
             IF MaskSpace = "position" THEN (IF ideal[j] = k THEN 1 ELSE 0)
             ELSE \* mask computed in sorted order but applied to positions (deviation)
                  (IF \E m \in Rows : SortedPos(col)[m] = j /\ ideal[m] = k THEN 1 ELSE 0)]]

FitDim ==
    /\ pc = "next" /\ dim <= NDim
    /\ IF dim = 1 \/ cond[dim] = 0
       THEN /\ ivals' = [ivals EXCEPT ![dim] = << [idx |-> 0, rows |-> Rows, opt |-> OptOf(dim),
                                                   wts |-> IF OptOf(dim) = "wlsqarr" THEN Rows ELSE {}] >>]
            /\ dep' = dep
       ELSE LET m == MasksFor(cond[dim])
                keep == {k \in 1..Len(m) : Cnt(m[k]) >= MinPts}
                iv == [k \in 1..Len(m) |->
                         [idx |-> k, rows |-> {perm[j] : j \in Ones(m[k])}, opt |-> OptOf(dim),
                          wts |-> IF OptOf(dim) # "wlsqarr" THEN {}
                                  ELSE IF WeightSpace = "sliced" THEN {perm[j] : j \in Ones(m[k])}
                                  ELSE {perm[j] : j \in 1..Cnt(m[k])}]]
                kept == SelectIdx(iv, keep, 1)
            IN /\ ivals' = [ivals EXCEPT ![dim] = kept]
               /\ dep' = [dep EXCEPT ![dim] =
                            [x |-> [t \in 1..Len(kept) |-> RefQ("center", kept[t].idx, 0, Upw)],
                             y |-> [t \in 1..Len(kept) |-> kept[t].rows]]]
    /\ dim' = dim + 1
    /\ pc' = IF dim = NDim THEN "done" ELSE "next"
    /\ UNCHANGED <<vals, perm, cond, opts>>

Next == FitDim
Spec == Init /\ [][Next]_vars

(* ---- the property ---- *)
OwnRows(c, k) == {r \in Rows : IdealIdx(vals[c][r], 0, Upw, TRUE) = k}

IntervalOwnData ==
    \A i \in 2..NDim : i < dim /\ cond[i] # 0 =>
       \A t \in 1..Len(ivals[i]) : ivals[i][t].rows = OwnRows(cond[i], ivals[i][t].idx)

KeptExactly ==
    \A i \in 2..NDim : i < dim /\ cond[i] # 0 =>
       {ivals[i][t].idx : t \in 1..Len(ivals[i])} =
         {k \in 1..WidthCount(0, SetMax({vals[cond[i]][r] : r \in Rows}), Upw) :
             Cardinality(OwnRows(cond[i], k)) >= MinPts}

(* the result is a function of the SET of rows: it does not mention perm at all *)
PermutationInvariant == IntervalOwnData /\ KeptExactly

DepFitInputs ==
    \A i \in 2..NDim : i < dim /\ cond[i] # 0 =>
       /\ Len(dep[i].x) = Len(ivals[i])
       /\ \A t \in 1..Len(ivals[i]) : dep[i].y[t] = ivals[i][t].rows
                                      /\ dep[i].x[t] = RefQ("center", ivals[i][t].idx, 0, Upw)

(* per-observation weights travel with their observations *)
IntervalOwnWeights ==
    \A i \in 1..NDim : i < dim =>
       \A t \in 1..Len(ivals[i]) :
          ivals[i][t].wts = IF OptOf(i) = "wlsqarr" THEN ivals[i][t].rows ELSE {}

OptionsPerDim ==
    \A i \in 1..NDim : i < dim => \A t \in 1..Len(ivals[i]) : ivals[i][t].opt = OptOf(i)
=============================================================================
