----------------------------- MODULE ViroconOps -----------------------------
(* The refinement mapping of spec/Virocon.tla as pure operators over a recorded session        *)
(* (sequence of [op, kind, arg, basis]) - shared by the state machine (invariant HistBasisAgrees, *)
(* checked exhaustively: the two formulations agree on every reachable history) and by the trace   *)
(* specification Trace_Virocon.tla, which uses it to check that the session the driver executed    *)
(* carries the bases the specification assigns.                                                    *)
EXTENDS Integers, Sequences

St0 == [gen |-> 0, cb |-> <<>>, cache |-> -1]
StepSt(st, o) ==
    IF o.op = "mut" THEN [st EXCEPT !.gen = @ + 1]
    ELSE IF o.op = "contour" THEN [st EXCEPT !.cb = Append(@, st.gen)]
    ELSE IF o.op = "tm" /\ o.kind = "tecdf" THEN [st EXCEPT !.cache = st.gen]
    ELSE st
BasisSt(st, o) ==
    CASE o.op \in {"eval", "contour", "tm"} -> st.gen
      [] o.op = "post" -> IF o.arg \in 1..Len(st.cb) THEN st.cb[o.arg] ELSE -2
      [] OTHER -> -1
RECURSIVE StateAfter(_, _)
StateAfter(ops, n) == IF n = 0 THEN St0 ELSE StepSt(StateAfter(ops, n - 1), ops[n])
ExpectedBasis(ops, i) == BasisSt(StateAfter(ops, i - 1), ops[i])
=============================================================================
