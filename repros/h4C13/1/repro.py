"""C13: a free delta that is not a local minimiser (least squares runs away until
fmin's iteration cap); the fitted object is numerically degenerate (cdf == 1)."""
import sys
import numpy as np
from virocon import ExponentiatedWeibullDistribution as EW


def x_space_error(delta, x, w):
    """Independent oracle: weighted x-space error at the alpha, beta that solve the
    weighted linear regression log10 x = log10 alpha + p_star / beta for this delta."""
    x = np.sort(x)
    n = len(x)
    p = (np.arange(1, n + 1) - 0.5) / n
    t = np.log(p) / delta
    z = np.where(t > -0.6, -np.log(-np.expm1(t)), -np.log1p(-np.exp(t)))
    p_star = np.log10(z)
    A = np.vstack([np.ones(n), p_star]).T
    sw = np.sqrt(w / w.sum())
    (a, b), *_ = np.linalg.lstsq(A * sw[:, None], np.log10(x) * sw, rcond=None)
    x_hat = 10 ** (a + b * p_star)
    return np.sum(w / w.sum() * (x - x_hat) ** 2)


bad = 0
cases = {
    "pareto(2)+1, n=1000": np.random.default_rng(0).pareto(2, 1000) + 1,
    "lognormal(0,1), n=200": np.random.default_rng(400).lognormal(0, 1, 200),
    "lognormal(0,1), n=30": np.random.default_rng(230).lognormal(0, 1, 30),
    "frechet(2), n=5000": np.random.default_rng(5000).weibull(2, 5000) ** -1.0,
}
for name, x in cases.items():
    for weights in (None, "linear"):
        dist = EW()
        dist.fit(x, method="lsq" if weights is None else "wlsq", weights=weights)
        w = np.ones(len(x)) if weights is None else np.sort(x)
        e_fit = x_space_error(dist.delta, x, w)
        e_half = x_space_error(dist.delta / 2, x, w)
        e_twice = x_space_error(dist.delta * 2, x, w)
        e_far = x_space_error(dist.delta * 1e10, x, w)
        q = np.quantile(x, [0.1, 0.5, 0.9])
        cdf = dist.cdf(q)
        print(
            f"{name:22s} weights={weights}: delta={dist.delta:.6g} alpha={dist.alpha:.3g} "
            f"beta={dist.beta:.3g}\n    error(delta/2)={e_half:.8g} error(delta)={e_fit:.8g} "
            f"error(2 delta)={e_twice:.8g} error(1e10 delta)={e_far:.8g}\n"
            f"    cdf at the sample's 10/50/90 % quantiles: {cdf}"
        )
        # Not a local minimiser: strictly monotone through the returned delta,
        # by far more than round-off (relative change > 1e-4).
        if e_half > e_fit * (1 + 1e-4) and e_twice < e_fit * (1 - 1e-4):
            print("    -> returned delta is NOT a local minimiser (error still falling)")
            bad += 1
        if np.all(cdf == 1.0):
            print("    -> fitted distribution is degenerate: cdf == 1 at all quantiles")
sys.exit(1 if bad else 0)
