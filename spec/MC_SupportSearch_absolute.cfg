SPECIFICATION Spec
CONSTANTS KMax = 10  Sub = 4  Peaks = {4, 512}  Steeps = {1, 2, 6}  Thr = 8  Rule = "dense"  Relative = FALSE  TailPermille = 10  Gaps = {0}
CHECK_DEADLOCK FALSE
INVARIANT StopRule
INVARIANT NoTailTruncation
