SPECIFICATION Spec
CONSTANTS MaxLen = 4  WithFit = TRUE  Frozen = FALSE
CHECK_DEADLOCK FALSE
INVARIANT Emit
