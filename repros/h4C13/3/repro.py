"""C13: for a fixed delta the returned alpha, beta are not the minimiser of the weighted
squared error of the linearised quantile relation when one weight dominates
(positive weight array with a wide range, or 'cubic' weights and one far outlier):
_estimate_alpha_beta uses E[ps*xs] - E[ps]E[xs] and E[ps^2] - E[ps]^2, which cancel."""
import sys
from fractions import Fraction as F
import numpy as np
from virocon import ExponentiatedWeibullDistribution as EW

DELTA = 1.0  # delta in force (f_delta); for delta = 1 the position is log10(-ln(1 - p))


def problem(x, w):
    """Sorted data, plotting positions and linearised coordinates (plain floats)."""
    idx = np.lexsort((w, x))
    x, w = x[idx], w[idx]
    n = len(x)
    p = (np.arange(1, n + 1) - 0.5) / n
    ps = np.log10(-np.log1p(-p))
    xs = np.log10(x)
    return [F(float(v)) for v in w], [F(float(v)) for v in ps], [F(float(v)) for v in xs]


def objective(W, P, X, alpha, beta):
    """Weighted squared error of log10 x = log10 alpha + ps / beta, exact arithmetic,
    weights normalised to sum 1."""
    a = F(float(np.log10(alpha)))
    b = F(1) / F(float(beta))
    sw = sum(W)
    return float(sum(wi * (xi - a - b * pi) ** 2 for wi, pi, xi in zip(W, P, X)) / sw)


def exact_minimiser(W, P, X):
    sw = sum(W)
    pb = sum(wi * pi for wi, pi in zip(W, P)) / sw
    xb = sum(wi * xi for wi, xi in zip(W, X)) / sw
    cov = sum(wi * (pi - pb) * (xi - xb) for wi, pi, xi in zip(W, P, X))
    var = sum(wi * (pi - pb) ** 2 for wi, pi in zip(W, P))
    b = cov / var
    return 10 ** float(xb - b * pb), float(1 / b)


rng = np.random.default_rng(0)
x0 = rng.weibull(2, 100)
bad = 0
cases = []
for eps in (1e-14, 1e-16, 1e-18):
    w = np.full(100, eps)
    w[int(np.argmax(x0))] = 1.0
    cases.append((f"weights array: 1 for the maximum, {eps:g} else", x0, w, w))
for outlier in (1e5, 1e6):
    x = x0.copy()
    x[int(np.argmax(x0))] = outlier
    cases.append((f"weights='cubic', largest observation replaced by {outlier:g}", x, "cubic", x**3))

for label, x, weights, w_num in cases:
    dist = EW(f_delta=DELTA)
    dist.fit(x, method="wlsq", weights=weights)
    W, P, X = problem(x, np.asarray(w_num, dtype=float))
    a_ex, b_ex = exact_minimiser(W, P, X)
    print(label)
    print(f"   fitted  alpha={dist.alpha!r} beta={dist.beta!r}")
    print(f"   optimum alpha={a_ex!r} beta={b_ex!r}")
    if not (np.isfinite(dist.alpha) and np.isfinite(dist.beta)):
        print("   -> non-finite result")
        bad += 1
        continue
    o_fit = objective(W, P, X, dist.alpha, dist.beta)
    o_ex = objective(W, P, X, a_ex, b_ex)
    rel = max(abs(dist.alpha / a_ex - 1), abs(dist.beta / b_ex - 1))
    print(f"   weighted squared error: fitted {o_fit:.6e}  optimum {o_ex:.6e}  "
          f"(ratio {o_fit / o_ex:.4g}); parameters off by {rel:.2e}")
    if rel > 1e-6 and o_fit > o_ex * (1 + 1e-6):
        bad += 1
sys.exit(1 if bad else 0)
