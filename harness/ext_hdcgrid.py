"""Growth beyond the listed properties (DESIGN section 7, item 3): grid bookkeeping of HighestDensityContour
(_check_grid case analysis over the forms of limits / deltas, default limits and cell sizes, cell-centre axes).
M: TLC checks spec/HdcGrid.tla (and the pre-D51 deviation must violate DeltasPositive);
R: every terminal state TLC emits is concretised and run on the real class;
V: Trace_HdcGrid.tla judges the recorded grid.  Called from the C04 driver."""
import warnings

import numpy as np

from .common import Q, Machinery

U = 0.125           # lattice unit of explicit limits / cell sizes
LO, HI, D = 8, 40, 4  # as in HdcGrid.tla (lattice units): limits (1.0, 5.0), cell size 0.5
ALPHA = 0.3


def _model(vc, nd, qneg):
    dists = []
    for i in range(nd):
        if qneg[i]:
            dists.append({"distribution": vc.NormalDistribution(mu=-3.0 - i, sigma=0.5)})
        elif i % 2 == 0:
            dists.append({"distribution": vc.WeibullDistribution(alpha=2.0 + 0.5 * i, beta=1.6, gamma=0.3)})
        else:
            dists.append({"distribution": vc.LogNormalDistribution(mu=0.9, sigma=0.35)})
    return vc.GlobalHierarchicalModel(dists)


def _limit_entry(kind, i):
    lo, hi = LO * U + i * U, HI * U - 2 * i * U      # per-dimension values, still on the lattice
    return {"asc": (lo, hi), "desc": (hi, lo), "list": [lo, hi], "array": np.array([lo, hi]),
            "len1": (lo,), "len3": (lo, hi, hi + 1.0), "scalar": hi}[kind], (lo, hi) if kind != "desc" else (hi, lo)


def record(vc, rid, case):
    nd, outer, lk, dk = case["nd"], case["outer"], case["lk"], case["dk"]
    model = _model(vc, nd, case["qneg"])
    passed = []
    if outer == "none":
        limits = None
        p = 1 - 0.2 ** nd * ALPHA
        passed = [[0, Q(float(model.distributions[i].icdf(p)), 1e6)] for i in range(nd)]
    else:
        ents = [_limit_entry(k, i) for i, k in enumerate(lk)]
        limits = [e[0] for e in ents]
        passed = [[Q(e[1][0], 1e6), Q(e[1][1], 1e6)] for e in ents]
        if outer == "wronglen":
            limits = limits + [(0.0, 1.0)]
    dvals = [D * U * (1 + (i % 2)) for i in range(nd)]       # 0.5, 1.0, 0.5
    if dk == "none":
        deltas, dpassed = None, []
    elif dk == "scalar":
        deltas, dpassed = D * U, [Q(D * U, 1e6)] * nd
    else:
        dpassed = [Q(v, 1e6) for v in dvals]
        deltas = {"list": list(dvals), "tuple": tuple(dvals), "array": np.array(dvals), "wronglen": list(dvals) + [1.0]}[dk]
    rec = dict(id=rid, nd=nd, outer=outer, lk=list(lk), dk=dk, passed=passed, dpassed=dpassed,
               lims=[], dels=[], counts=[], c0=[], cl=[])
    try:
        with warnings.catch_warnings():
            warnings.simplefilter("ignore")
            c = vc.HighestDensityContour(model, ALPHA, limits=limits, deltas=deltas)
        rec["outcome"] = "ok"
        rec["lims"] = [[Q(float(np.asarray(c.limits[i]).ravel()[0]), 1e6), Q(float(np.asarray(c.limits[i]).ravel()[1]), 1e6)] for i in range(nd)]
        rec["dels"] = [Q(float(c.deltas[i]), 1e6) for i in range(nd)]
        rec["counts"] = [int(len(a)) for a in c.cell_center_coordinates]
        rec["c0"] = [Q(float(a[0]), 1e6) for a in c.cell_center_coordinates]
        rec["cl"] = [Q(float(a[-1]), 1e6) for a in c.cell_center_coordinates]
    except Exception as e:  # noqa
        rec["outcome"] = type(e).__name__
    return rec


def key_of(case):
    return (f"hdcgrid nd={case['nd']} limits={case['outer']}:{','.join(case['lk'])} deltas={case['dk']} "
            f"negq={''.join('1' if q else '0' for q in case['qneg'])}")


def run_ext(ctx, vc):
    ctx.model_check("HdcGrid", "MC_HdcGrid.cfg", must_cover=("CheckGrid", "BuildAxes"))
    ctx.model_check("HdcGrid", "MC_HdcGrid_mut.cfg", expect_violation="DeltasPositive")
    cases = ctx.generate("HdcGrid", "Gen_HdcGrid.cfg")
    rng = np.random.default_rng(ctx.seed + 41)
    if ctx.quick:
        # all 2-D cases, a seeded fifth of the 3-D ones
        # (default cell sizes mean 401 x 401 cells: a seeded third of those with explicit limits)
        cases = [c for c in cases if (c["nd"] == 2 and (c["dk"] != "none" or c["outer"] != "given" or rng.random() < 0.34))
                 or (c["nd"] == 3 and rng.random() < 0.2)]
    recs = [record(vc, i + 1, c) for i, c in enumerate(cases)]
    failing = ctx.validate("Trace_HdcGrid", "Trace_HdcGrid.cfg", recs)
    for r, c in zip(recs, cases):
        ctx.case(key_of(c))
        for clause in failing.get(r["id"], []):
            ctx.violation("HdcGrid." + clause, key_of(c), f"record={r}"[:900], replay=None)
    if not any(r["outcome"] == "ok" and r["dk"] == "none" and r["outer"] == "none" for r in recs):
        raise Machinery("hdcgrid: no all-default construction was exercised")
    ctx.notes["hdcgrid_cases_from_TLC"] = len(cases)
    ctx.notes["hdcgrid_constructions_ok"] = sum(1 for r in recs if r["outcome"] == "ok")
    # binding self-test: a negative stored cell size must be rejected
    bad = dict(next(r for r in recs if r["outcome"] == "ok" and r["dk"] == "none"))
    bad["dels"] = [-abs(v) for v in bad["dels"]]
    bad["id"] = 1
    rej = ctx.validate("Trace_HdcGrid", "Trace_HdcGrid.cfg", [bad])
    if "DeltasPositive" not in rej.get(1, []):
        raise Machinery("hdcgrid self-test: negative cell size not rejected")
