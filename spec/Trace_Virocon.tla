--------------------------- MODULE Trace_Virocon ---------------------------
(* Judges replayed sessions of spec/Virocon.tla (harness/ext_virocon.py).  One record = one      *)
(* session:                                                                                      *)
(*   ops    the session as TLC generated it: [op, kind, arg, basis]                                *)
(*   obs    per step the digest (small integer id; 0 = nothing returned) of what the REAL objects  *)
(*          returned in the session                                                                *)
(*   canon  per step the digest of the same operation on a FRESH model in another fresh process,   *)
(*          to which only the first `basis` mutators of the session were applied                   *)
(*   snap   per step the digests of the coordinates of all contours alive                          *)
(*   pfp    per step the digest of the model's parameters                                          *)
EXTENDS ViroconOps, Fix, TLC, Json, IOUtils

VARIABLE l
TraceLog == ndJsonDeserialize(IOEnv.TRACE_FILE)
N(r) == Len(r.ops)

Clauses(r) == <<
    (* the driver executed what the specification generated *)
    <<"Virocon.SessionOfSpec", \A i \in 1..N(r) : r.ops[i].basis = ExpectedBasis(r.ops, i)>>,
    (* every result is the result of the same operation on a fresh model that has seen only the mutators of its basis *)
    <<"Virocon.ResultIsFunctionOfBasis", \A i \in 1..N(r) : r.ops[i].basis >= 0 => r.obs[i] = r.canon[i]>>,
    (* the coordinates of a contour never change after its construction *)
    <<"Virocon.SnapshotStable", \A i \in 2..N(r) : \A c \in 1..Len(r.snap[i - 1]) : r.snap[i][c] = r.snap[i - 1][c]>>,
    (* only mutators change the parameters *)
    <<"Virocon.OnlyMutatorsMutate", \A i \in 2..N(r) : r.ops[i].op # "mut" => r.pfp[i] = r.pfp[i - 1]>>
  >>

Verdict(r) == Failing(Clauses(r))

Init == l = 1
Next == /\ l <= Len(TraceLog)
        /\ LET r == TraceLog[l] v == Verdict(r) IN
             IF v = <<>> THEN TRUE ELSE PrintT(<<"VERDICT", r.id, v>>)
        /\ l' = l + 1
Spec == Init /\ [][Next]_l
Consumed == l = Len(TraceLog) + 1 => PrintT(<<"CONSUMED", l - 1>>)
=============================================================================
