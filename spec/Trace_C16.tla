----------------------------- MODULE Trace_C16 -----------------------------
(* Trace validation for C16 (variable transformations, TransformedModel, Monte-Carlo      *)
(* conditionals).  Records (field `kind`):                                               *)
(*  "roundtrip"   a shipped transformation pair on a log-spaced lattice over (1e-3, 1e2):  *)
(*                rt = max relative error of inverse(transform(x)) (1e-12 units),          *)
(*                jac = max relative error of the supplied Jacobian against central         *)
(*                differences of the transform (1e-9 units; -1: pair has no Jacobian)       *)
(*  "pushforward" pdf of a TransformedModel against base pdf(T(x)) * |det dT/dx| with the   *)
(*                determinant from central differences (1e-9 relative), non-negativity,     *)
(*                total mass by quadrature (1e-9 units)                                     *)
(*  "cdfemp"      TransformedModel.cdf against the empirical cdf of n own samples (D4 =     *)
(*                |difference| in 1e-4 units)                                               *)
(*  "samples"     draw_sample equals inverse(base.draw_sample) under the same seed, bitwise *)
(*  "cond"        conditional_sample / conditional_cdf / conditional_icdf of the second      *)
(*                variable given the first, against the exact conditional law obtained from *)
(*                the base model's conditional distribution and the monotone transform      *)
(*                (KS distance and quantile / cdf deviations in 1e-4 units), the support     *)
(*                search observed through the hook (k, stop flags) and the exact             *)
(*                conditional mass beyond x_max (1e-9 units)                                *)
(*  "iform"       an IFORM contour of a TransformedModel: for every point the exact cdf      *)
(*                values of the returned coordinates against the probabilities of the        *)
(*                sphere point (1e-4 units) with the Monte-Carlo sizes; reproducibility      *)
EXTENDS Integers, Sequences, FiniteSets, Fix, Json, IOUtils, TLC

TraceLog == ndJsonDeserialize(IOEnv.TRACE_FILE)
VARIABLE l

(* DKW at error probability 1e-12: sup|F_n - F| <= sqrt(ln(2e12) / (2n)); with D in 1e-4    *)
(* units: D^2 <= 1e8 * 28.32 / (2n) = 1 416 000 000 / n.  One extra unit for quantisation and *)
(* 1/n for the quantile step (covered for n >= 1e4).                                         *)
DKW(d4, n) == (Max2(d4 - 1, 0)) * (Max2(d4 - 1, 0)) <= 1416000000 \div n

Clauses(r) ==
  CASE r.kind = "roundtrip" ->
         << <<"RoundTrip", r.rt <= 1000>>,                     \* 1e-9 relative
            <<"JacobianIsDet", r.jac = -1 \/ r.jac <= 100000>> >>  \* 1e-4: central differences, h = 1e-5 x
    [] r.kind = "pushforward" ->
         << <<"PushForward", r.pdev <= 2000>>,                \* 2e-6 relative (determinant by central differences)
            <<"NonNegative", r.nonneg>>,
            <<"MassOne", r.mass = -1 \/ Within(r.mass, 1000000000, 2000000)>> >>   \* 2e-3: 2-D quadrature of a peaked density
    [] r.kind = "cdfemp" ->
         << <<"CdfMatchesEmpirical", DKW(r.d4 + 2, r.n) \/ r.d4 <= 20>> >>    \* + nquad error 2e-4
    [] r.kind = "samples" ->
         << <<"SamplesAreInverseImages", r.equal>>, <<"SampleShape", r.shapeok>> >>
    [] r.kind = "cond" ->
         (* Whether the observed support search is a behaviour of SupportSearch.tla (x_max on the   *)
         (* 100 * 0.7^k lattice, stop rule) is reported by SupportConformant below and counted in   *)
         (* the evidence; it is NOT a verdict: another search that does not truncate is as good.   *)
         << <<"NoTailTruncation", r.tail <= 100000>>,         \* at most 1e-4 of the conditional mass cut off
            <<"ConditionalSampleFollowsLaw", r.sampled => DKW(r.ks4, r.n)>>,
            <<"ConditionalCdfMatches", r.sampled => DKW(r.cdf4, r.ncdf)>>,
            <<"ConditionalIcdfMatches", r.sampled => DKW(r.icdf4, r.nicdf)>>,
            <<"IntegerInputSameAsFloat", r.intsame>> >>
    [] r.kind = "margmc" ->
         << <<"MarginalQuantile", \A i \in 1..Len(r.d0) : DKW(r.d0[i], r.n0)>> >>
    [] r.kind = "iform" ->
         << <<"PointCount", Len(r.d0) = r.npoints /\ Len(r.d1) = r.npoints>>,
            <<"MarginalQuantile", \A i \in 1..Len(r.d0) : DKW(r.d0[i], r.n0)>>,
            <<"ConditionalQuantile", \A i \in 1..Len(r.d1) : DKW(r.d1[i], r.n1[i])>>,
            <<"Reproducible", r.repro>>,
            <<"ReproducibleAfterSampleCache", r.reproaftercache>>,
            <<"SeedMatters", r.seedmatters>> >>

(* since D76: x_max = (largest point of the dense grid whose density reaches the effective threshold) / 0.7,   *)
(* capped at 100: that grid point is in the support (fat) and the next one is not (fnext)                      *)
SupportConformant(r) == r.hooked /\ (r.atfloor \/ (r.fat /\ r.fnext))

Verdict(r) == IF r.exc # "" THEN <<"UnexpectedException">> ELSE Failing(Clauses(r))

Init == l = 1
Next == /\ l <= Len(TraceLog)
        /\ LET r == TraceLog[l] v == Verdict(r) IN
             /\ (IF v = <<>> THEN TRUE ELSE PrintT(<<"VERDICT", r.id, v>>))
             /\ (IF r.kind = "cond" /\ SupportConformant(r) THEN PrintT(<<"CONFORMANT", r.id>>) ELSE TRUE)
        /\ l' = l + 1
Spec == Init /\ [][Next]_l
Consumed == l = Len(TraceLog) + 1 => PrintT(<<"CONSUMED", l - 1>>)
=============================================================================
