---------------------------- MODULE IntersectGen ----------------------------
(* Leg R of C17 (intersection routine): every pair of lattice polylines (NP and NQ      *)
(* vertices on an L x L lattice) that is in general position - the domain on which the   *)
(* property fixes the result - is emitted for execution on the real routine.             *)
(* TouchToo = TRUE also emits the pairs that are not in general position but have no      *)
(* parallel touching segments (used for the closed-range clause of Trace_C17).           *)
EXTENDS IntersectOps, TLC, Json
CONSTANTS L, NP, NQ, TouchToo
Lat == (0..(L - 1)) \X (0..(L - 1))
VARIABLE g
Init == g \in [p : [1..NP -> Lat], q : [1..NQ -> Lat]]
Next == UNCHANGED g
Spec == Init /\ [][Next]_g
NonDegenerate(p, q) == (\A i \in 1..NSeg(p) : p[i] # p[i + 1]) /\ (\A j \in 1..NSeg(q) : q[j] # q[j + 1])
Emit == (GeneralPosition(g.p, g.q) \/ (TouchToo /\ NonDegenerate(g.p, g.q)))
          => PrintT(<<"BEH", ToJson(g)>>)
CountGP == TRUE
=============================================================================
