SPECIFICATION Spec
CONSTANTS Objs = {1,2}  Ns = {4}  MaxLen = 3  Mut = "none"  EmitHist = TRUE
CHECK_DEADLOCK FALSE
INVARIANT Emit
