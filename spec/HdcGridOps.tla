----------------------------- MODULE HdcGridOps -----------------------------
(* Grid bookkeeping of HighestDensityContour (growth beyond the listed properties, DESIGN       *)
(* section 7 item 3): the case analysis of _check_grid over the forms limits and deltas may     *)
(* take, the default limits / cell sizes, and the cell-centre axes built by _compute.           *)
(* Lengths are integers in lattice units (the driver uses 1/8), so that np.arange is exact.     *)
EXTENDS Integers, Sequences, FiniteSets

(* forms of one entry of limits: (lo, hi) tuple, (hi, lo) tuple, list, ndarray; malformed: 1 or 3 *)
(* elements, a scalar                                                                            *)
LimitKinds == {"asc", "desc", "list", "array", "len1", "len3", "scalar"}
BadLimitKinds == {"len1", "len3", "scalar"}
(* limits as a whole: given with one entry per dimension, None (defaults), wrong number of entries *)
OuterKinds == {"given", "none", "wronglen"}
(* deltas: None (defaults), scalar, list / tuple / ndarray with one entry per dimension, wrong length *)
DeltaKinds == {"none", "scalar", "list", "tuple", "array", "wronglen"}

(* The entries of limits are validated (ValueError) only when the axes are built.  With default   *)
(* cell sizes _check_grid has by then already indexed every entry with [0] and [1]: an entry of   *)
(* one element or a scalar ends there as IndexError / TypeError (deviation of the code, kept and   *)
(* named: EarlyIndexing); an entry of three elements passes and is rejected later.                 *)
EarlyIndexing(outer, lk, dk) ==
    outer = "given" /\ dk = "none" /\ \E i \in DOMAIN lk : lk[i] \in {"len1", "scalar"}
Outcomes(outer, lk, dk) ==
    IF outer = "wronglen" \/ dk = "wronglen" THEN {"ValueError"}
    ELSE IF EarlyIndexing(outer, lk, dk) THEN {"IndexError", "TypeError"}
    ELSE IF outer = "given" /\ \E i \in DOMAIN lk : lk[i] \in BadLimitKinds THEN {"ValueError"}
    ELSE {"ok"}
Outcome(outer, lk, dk) == IF Outcomes(outer, lk, dk) = {"ok"} THEN "ok"
                          ELSE IF Outcomes(outer, lk, dk) = {"ValueError"} THEN "ValueError" ELSE "OtherError"

Min2(a, b) == IF a < b THEN a ELSE b
Max2(a, b) == IF a < b THEN b ELSE a
Abs(a) == IF a < 0 THEN -a ELSE a
CeilDiv(a, b) == (a + b - 1) \div b

(* number of cell centres np.arange(min, max + d, d) yields in exact arithmetic *)
AxisCount(lo, hi, d) == CeilDiv(Max2(lo, hi) - Min2(lo, hi) + d, d)
(* centre k (0-based) *)
Centre(lo, hi, d, k) == Min2(lo, hi) + k * d
(* the axis covers the whole range: the last centre is not below the upper limit *)
Covers(lo, hi, d) == Centre(lo, hi, d, AxisCount(lo, hi, d) - 1) >= Max2(lo, hi)

(* default cell size: 0.25 % of the range, i.e. 400 cells; positive whatever the order of the limits *)
DefaultDeltaTimes400(lo, hi) == Abs(hi - lo)
=============================================================================
