"""C07 - samples follow the model they are drawn from and are reproducible by seed.

M: TLC explores spec/Rosenblatt.tla in mode "sample" (SampleStep: rows x columns, the given of
   row r is the value sampled in row r) and spec/RngStreams.tla (all draw histories of length
   <= 3/4 over random_state in {None, seed a, seed b, Generator g, Generator g'}); mutation
   configs (given read from the other row / wrong column; generator not advanced; seed ignored)
   must fail.
R: TLC emits every configuration (n <= 3) and every draw history of length <= 3.
V: PIT values F_i(x_i | x_cond[i]) computed by the driver with the declared structure -> KS
   distances overall / within 8 bins of the conditioning value / within 8 bins of every earlier
   component, judged by the DKW inequality (delta = 1e-12) in integer arithmetic; shapes for
   n in {1, 2, 1000, 1e5 (1e6)}; replayed histories reduced to digests numbered by first
   occurrence, equality pattern judged against the stream model.  spec/Trace_C07.tla.
"""
import hashlib
import math
import warnings

import numpy as np

from .common import Machinery, import_virocon
from . import models as M

LEVEL = "model_checking"
NBINS = 8


# ---- measurements --------------------------------------------------------------------------

def ks_uniform(u):
    """Kolmogorov distance of the values u to the uniform distribution on [0,1] (by hand)"""
    u = np.sort(np.asarray(u, dtype=float))
    n = len(u)
    if n == 0:
        return 0.0
    i = np.arange(1, n + 1)
    return float(max(np.max(i / n - u), np.max(u - (i - 1) / n)))


def d5(D):
    return int(math.floor(min(max(D, 0.0), 1.0) * 1e5))


def binned(u, by):
    """[n_b, d5] of u within NBINS equal-count bins of `by`"""
    order = np.argsort(by, kind="stable")
    out = []
    for part in np.array_split(order, NBINS):
        if len(part):
            out.append([int(len(part)), d5(ks_uniform(u[part]))])
    return out


def wrap_to(mu, x):
    """von Mises: compare modulo 2 pi (samples may be wrapped): the representative in [mu-pi, mu+pi)"""
    return mu + np.mod(x - mu + np.pi, 2 * np.pi) - np.pi


def pit_columns(model, desc, x):
    """u_i = F_i(x_i | x_cond[i]) with the declared structure, row by row (vectorised over rows)"""
    n_dim = x.shape[1]
    u = np.empty_like(x)
    for i in range(n_dim):
        d = model.distributions[i]
        c = desc["cond"][i]
        xi = x[:, i]
        given = None if c is None else x[:, c]
        if desc["dims"][i]["family"] == "vonmises":
            mu = M.param_values(desc, i, given)["mu"]
            xi = wrap_to(np.asarray(mu, dtype=float), xi)
        with warnings.catch_warnings():
            warnings.simplefilter("ignore")
            u[:, i] = d.cdf(xi) if c is None else d.cdf(xi, given=given)
    return u


# an integer seed spelled with a NumPy integer type (an element of np.arange, of SeedSequence.generate_state,
# of a seed column read from a file); "np.int64-0" is the falsy NumPy zero.  A 0-d integer ARRAY is not a seed of
# the unchanged library (TypeError for a model, ValueError for a distribution) and is not an input class.
NP_SEED_TYPES = {"np.int64": np.int64, "np.int32": np.int32, "np.uint32": np.uint32, "np.int64-0": np.int64}
SEED_SPELLINGS = ["int", "np.int64", "np.int32", "np.uint32"]


def spell_seed(ty, value):
    """the integer `value` as a python int or as a NumPy integer scalar of the named type"""
    return int(value) if ty == "int" else NP_SEED_TYPES[ty](int(value))


def rs_of(kind, seed):
    """random_state of the given kind; "int0" is the integer seed 0 (legal, but falsy in Python)"""
    if kind == "none":
        return None
    if kind == "int0":
        return 0
    if kind == "np.int64-0":
        return np.int64(0)
    if kind in NP_SEED_TYPES:
        return spell_seed(kind, int(seed) % (2**31 - 1))
    return int(seed) if kind == "int" else np.random.default_rng(int(seed))


# families a user derives from virocon.distributions.ScipyDistribution (class attribute scipy_dist_name);
# parameters are the scipy shape parameters, loc and scale, kept as plain attributes of the object
SCIPY_FAMILIES = {"scipy:gamma": [("a", 1.2, 4.0), ("loc", 0.0, 1.0), ("scale", 0.5, 2.5)],
                  "scipy:gumbel_r": [("loc", -1.0, 2.0), ("scale", 0.5, 2.0)],
                  "scipy:weibull_min": [("c", 1.0, 3.0), ("loc", 0.0, 1.0), ("scale", 0.6, 3.0)]}
_SCIPY_CLS = {}


def uni_class(vc, fam):
    if fam not in SCIPY_FAMILIES:
        return M.dist_class(vc, fam)
    import virocon.distributions as vd
    if fam not in _SCIPY_CLS:
        name = fam.split(":")[1]
        _SCIPY_CLS[fam] = type("Scipy_" + name, (vd.ScipyDistribution,), {"scipy_dist_name": name})
    return _SCIPY_CLS[fam]


def uni_params(rng, fam):
    if fam not in SCIPY_FAMILIES:
        return M.describe(rng, 1, [None], [fam], None)["dims"][0]["params"]
    return {p: float(rng.uniform(lo, hi)) for p, lo, hi in SCIPY_FAMILIES[fam]}


def model_key(c):
    if c.get("desc"):
        d = c["desc"]
        small = [{k: float(f"{v:.4g}") for k, v in (dd.get("params") or {**dd["fixed"], **{p: co[1][0] for p, co in dd["deps"].items()}}).items()}
                 for dd in d["dims"] if dd["family"] in ("expweibull", "gengamma")]
        return f"extreme-shape n_dim={d['n_dim']} families={','.join(d['families'])} params={small} seed={c['seed']}"
    return (f"n_dim={c['n_dim']} cond={c['cond']} families={','.join(c['families'])} shapes={c['sh']} "
            + (f"constants={c['style']} " if c.get("style") else "") + f"seed={c['seed']}")


def extreme_params(fam, rng):
    """the region where scipy's rvs underflows: exponentiated Weibull with delta 1e-3..1e-2 and
    beta*delta about 0.5; generalized gamma with m 1e-3..2e-2 and a large c (c*m about 1)"""
    if fam == "expweibull":
        delta = float(10 ** rng.uniform(-3, -2))
        return {"alpha": float(rng.uniform(0.6, 2.0)), "beta": float(rng.uniform(0.35, 0.7)) / delta, "delta": delta}
    m = float(10 ** rng.uniform(-3, math.log10(2e-2)))
    return {"m": m, "c": float(rng.uniform(0.7, 1.4)) / m, "lambda_": float(rng.uniform(0.5, 2.0))}


def extreme_description(rng, variant):
    """joint models with such a variable: unconditional (0, 3), conditional with explicit parameters
    (constant small shape, varying scale) on a Weibull parent (1, 2), 3-D with both (3)"""
    ew, gg = extreme_params("expweibull", rng), extreme_params("gengamma", rng)
    ew_c = {"family": "expweibull", "fixed": {}, "deps": {"alpha": ["abslinear", [ew["alpha"], 0.3]],
                                                            "beta": ["const", [ew["beta"]]], "delta": ["const", [ew["delta"]]]}}
    gg_c = {"family": "gengamma", "fixed": {"m": gg["m"]}, "deps": {"c": ["const", [gg["c"]]],
                                                                     "lambda_": ["asym3", [gg["lambda_"], 0.8, 0.7]]}}
    par = {"family": "weibull", "params": {"alpha": 1.8, "beta": 1.5, "gamma": 0.2}}
    child = {"family": "lognormal", "fixed": {"sigma": 0.4}, "deps": {"mu": ["loglinear", [0.3, 0.2]]}}
    dims = [[{"family": "expweibull", "params": ew}, child], [par, ew_c], [par, gg_c],
            [{"family": "gengamma", "params": gg}, ew_c, {"family": "normal", "fixed": {}, "deps": {
                "mu": ["tanh3", [0.5, 0.8, 0.6]], "sigma": ["const", [0.7]]}}]][variant]
    n = len(dims)
    return {"n_dim": n, "cond": [None] + list(range(n - 1)), "families": [d["family"] for d in dims],
            "shapes": [0] + [2] * (n - 1), "dims": dims}


def get_model(c):
    vc = import_virocon()
    if c.get("desc"):
        return M.from_description(vc, c["desc"]), c["desc"]
    desc = M.describe(np.random.default_rng(c["seed"]), c["n_dim"], c["cond"], c["families"], c["sh"])
    if c.get("style"):
        M.constant_style(desc, c["style"])
    return M.from_description(vc, desc), desc


def ks_task(c):
    """c: model case (n_dim >= 2) or univariate case (n_dim == 1), n, rs kind"""
    rec = dict(kind="ks", exc="", n=c["n"], overall=[], given=[], indep=[], extreme=[], dups=[], finite=True, fresh=True)
    np.random.seed((c["seed"] + 17) % (2**32 - 1))
    try:
        if c["n_dim"] == 1:
            vc = import_virocon()
            desc = {"dims": [{"params": uni_params(np.random.default_rng(c["seed"]), c["families"][0])}]}
            if c.get("params"):
                desc["dims"][0]["params"] = dict(c["params"])
            dist = uni_class(vc, c["families"][0])(**desc["dims"][0]["params"])
            with warnings.catch_warnings():
                warnings.simplefilter("ignore")
                x = np.asarray(dist.draw_sample(c["n"], random_state=rs_of(c["rs"], c["seed"] + 1)), dtype=float)
            rec["finite"] = bool(np.all(np.isfinite(x))) and x.shape == (c["n"],)
            if rec["finite"]:
                if c["families"][0] == "vonmises":
                    x = wrap_to(desc["dims"][0]["params"]["mu"], x)
                u = np.asarray(dist.cdf(x), dtype=float)
                rec["overall"].append([int(len(u)), d5(ks_uniform(u))])
            key = f"univariate {c['families'][0]} params={desc['dims'][0]['params']} n={c['n']} random_state={c['rs']}"
            return [dict(rec=rec, key=key, nontrivial=True, case=c)]
        model, desc = get_model(c)
        with warnings.catch_warnings():
            warnings.simplefilter("ignore")
            x = np.asarray(model.draw_sample(c["n"], random_state=rs_of(c["rs"], c["seed"] + 1)), dtype=float)
        rec["finite"] = bool(np.all(np.isfinite(x))) and x.shape == (c["n"], c["n_dim"])
        if rec["finite"]:
            # rows are independent draws: a continuous variable does not repeat values
            rec["dups"] = [int(len(x) - len(np.unique(x[:, i]))) for i in range(c["n_dim"])]
            u = pit_columns(model, desc, x)
            for i in range(c["n_dim"]):
                rec["overall"].append([int(len(u)), d5(ks_uniform(u[:, i]))])
                if desc["cond"][i] is not None:
                    rec["given"].extend(binned(u[:, i], x[:, desc["cond"][i]]))
                for k in range(i):
                    rec["indep"].extend(binned(u[:, i], u[:, k]))
    except Exception as e:  # noqa
        rec["exc"] = f"{type(e).__name__}: {e}"[:200]
        desc = None
    key = f"joint n={c['n']} random_state={c['rs']} " + model_key(c)
    return [dict(rec=rec, key=key, nontrivial=bool(desc) and M.nontrivial_dependence(desc), case=c,
                 colsens=bool(desc) and M.column_sensitive(desc), seedtype=bool(c.get("seedtype")))]


# ---- fitted models ---------------------------------------------------------------------------

def _p3(x, a, b, c):
    return a + b * x ** c


def _e3(x, a, b, c):
    return a + b * np.exp(c * x)


def _lin(x, a, b):
    return a + b * x


def _structure(vc, n_dim, truth, rng=None):
    """Hs-Tz(-third variable) structure with fit-capable dependence functions; truth=True sets the
    generating parameters (randomised a little), truth=False leaves everything to fit()"""
    bounds = [(0, None), (0, None), (None, None)]
    mu, sigma = vc.DependenceFunction(_p3, bounds), vc.DependenceFunction(_e3, bounds)
    if truth:
        f = rng.uniform(0.85, 1.2, size=8)
        mu.parameters = {"a": 0.1 * f[0], "b": 1.489 * f[1], "c": 0.1901 * f[2]}
        sigma.parameters = {"a": 0.04 * f[3], "b": 0.1748 * f[4], "c": -0.2243}
        d0 = vc.WeibullDistribution(alpha=2.776 * f[5], beta=1.471 * f[6], gamma=0.0)
    else:
        d0 = vc.WeibullDistribution(f_gamma=0.0)
    dd = [{"distribution": d0, "intervals": vc.WidthOfIntervalSlicer(width=0.5, min_n_points=50)},
          {"distribution": vc.LogNormalDistribution(), "conditional_on": 0, "parameters": {"mu": mu, "sigma": sigma},
           "intervals": vc.WidthOfIntervalSlicer(width=1.0, min_n_points=50)}]
    if n_dim == 3:
        m3, s3 = vc.DependenceFunction(_lin), vc.DependenceFunction(_e3, bounds)
        if truth:
            m3.parameters = {"a": 1.0 * f[7], "b": 0.8}
            s3.parameters = {"a": 0.3, "b": 1.0, "c": -0.15}
        dd.append({"distribution": vc.NormalDistribution(), "conditional_on": 1, "parameters": {"mu": m3, "sigma": s3}})
    return vc.GlobalHierarchicalModel(dd)


def fitted_task(c):
    """fit a model (to data drawn from a known model of the same structure, or to the shipped
    sea-state data set A with the predefined DNVGL structure), then sample from the FITTED model and
    judge the PIT per conditioning region -- in particular the rows whose conditioning value lies
    outside the range of the interval reference values the fit has seen"""
    vc = import_virocon()
    rec = dict(kind="ks", exc="", n=c["n"], overall=[], given=[], indep=[], extreme=[], dups=[], finite=True, fresh=True)
    info = {}
    try:
        with warnings.catch_warnings():
            warnings.simplefilter("ignore")
            if c["source"] in ("dataset", "dataset-omae-wlsq"):
                from .common import REPO
                data = vc.read_ec_benchmark_dataset(str(REPO / "datasets" / "ec-benchmark_dataset_A_1year.txt"))
                # DNVGL: Weibull (mle) + LogNormal; OMAE2020: exponentiated Weibull fitted by weighted least
                # squares ([{"method": "wlsq", "weights": "quadratic"}, None]) + LogNormal
                dd, fd, _ = vc.get_DNVGL_Hs_Tz() if c["source"] == "dataset" else vc.get_OMAE2020_Hs_Tz()
                model = vc.GlobalHierarchicalModel(dd)
                if c.get("presample"):          # history: the model object has been sampled before it is fitted
                    model.draw_sample(1000, random_state=c["seed"] + 9)
                model.fit(np.asarray(data), fd)
            else:
                rng = np.random.default_rng(c["seed"])
                truth = _structure(vc, c["n_dim"], True, rng)
                data = truth.draw_sample(c["n_data"], random_state=c["seed"] + 1)
                model = _structure(vc, c["n_dim"], False)
                if c.get("presample"):
                    model.draw_sample(1000, random_state=c["seed"] + 9)
                model.fit(data)
            x = np.asarray(model.draw_sample(c["n"], random_state=rs_of(c["rs"], c["seed"] + 2)), dtype=float)
        n_dim = model.n_dim
        rec["finite"] = bool(np.all(np.isfinite(x))) and x.shape == (c["n"], n_dim)
        if rec["finite"]:
            u = np.empty_like(x)
            for i in range(n_dim):
                d, cc = model.distributions[i], model.conditional_on[i]
                with warnings.catch_warnings():
                    warnings.simplefilter("ignore")
                    u[:, i] = d.cdf(x[:, i]) if cc is None else d.cdf(x[:, i], given=x[:, cc])
            for i in range(n_dim):
                rec["overall"].append([int(len(u)), d5(ks_uniform(u[:, i]))])
                cc = model.conditional_on[i]
                if cc is None:
                    continue
                g = x[:, cc]
                refs = np.asarray(model.distributions[i].conditioning_values, dtype=float)
                lo, hi = float(refs.min()), float(refs.max())
                inside = (g >= lo) & (g <= hi)
                rec["given"].extend(binned(u[inside, i], g[inside]))
                for name, mask in (("below", g < lo), ("above", g > hi)):
                    m = int(mask.sum())
                    info[f"dim{i}_{name}"] = m
                    if m:
                        rec["extreme"].append([m, d5(ks_uniform(u[mask, i]))])
                for k in range(i):
                    rec["indep"].extend(binned(u[:, i], u[:, k]))
    except Exception as e:  # noqa
        rec["exc"] = f"{type(e).__name__}: {e}"[:200]
    key = (f"fitted source={c['source']}{' sampled-before-fit' if c.get('presample') else ''} n_dim={c['n_dim']} "
           f"n={c['n']} random_state={c['rs']} seed={c['seed']}")
    big = sum(1 for t in rec["extreme"] if t[0] >= 400)
    return [dict(rec=rec, key=key, nontrivial=big > 0, case=c, extreme_regions=big, info=info)]


def model_history_task(c):
    """construct -> sample -> modify the model object in place -> sample again.  The second sample
    must follow the model AS IT IS NOW (PIT through the current objects, declared structure) and be
    bit-for-bit the sample of a freshly constructed model with the same current parameters.
    how: "replace-entry"   model.distributions[k] = another distribution object (same or other family;
                           k = 0: a plain distribution, k > 0: a ConditionalDistribution)
         "set-parameters"  attribute assignment on the first distribution + new parameters dict of every
                           dependence function (models.change_parameters)
         "set-fixed"       new values in the fixed_parameters dict of the conditional distributions
    style "scalar"/"fixed": the parameters that do not vary with the given are scalar-returning dependence
    functions / fixed parameters (models.constant_style); both draws use the same n"""
    import copy
    vc = import_virocon()
    out = []
    np.random.seed((c["seed"] + 29) % (2**32 - 1))
    desc_a = M.describe(np.random.default_rng(c["seed"]), c["n_dim"], c["cond"], c["families"], c["sh"])
    if c.get("style"):           # constants as scalar-returning dependence functions / fixed parameters
        M.constant_style(desc_a, c["style"])
    model = M.from_description(vc, desc_a)
    n = c["n"]                   # the SAME sample size before and after the change

    def judge_sample(mdl, desc, x):
        rec = dict(kind="ks", exc="", n=n, overall=[], given=[], indep=[], extreme=[], dups=[], finite=True, fresh=True)
        rec["finite"] = bool(np.all(np.isfinite(x))) and x.shape == (n, c["n_dim"])
        if rec["finite"]:
            u = pit_columns(mdl, desc, x)
            for i in range(c["n_dim"]):
                rec["overall"].append([int(len(u)), d5(ks_uniform(u[:, i]))])
                if desc["cond"][i] is not None:
                    rec["given"].extend(binned(u[:, i], x[:, desc["cond"][i]]))
                for k in range(i):
                    rec["indep"].extend(binned(u[:, i], u[:, k]))
        return rec
    try:
        with warnings.catch_warnings():
            warnings.simplefilter("ignore")
            x1 = np.asarray(model.draw_sample(n, random_state=rs_of(c["rs"], c["seed"] + 1)), dtype=float)
            out.append(dict(rec=judge_sample(model, desc_a, x1), key=f"model-history first-sample {model_key(c)}",
                            nontrivial=True, case=c))
            if c["how"] == "replace-entry":
                k = c["entry"]
                desc_b = M.describe(np.random.default_rng(c["seed"] + 5), c["n_dim"], c["cond"], c["families_b"], c["sh"])
                donor = M.from_description(vc, desc_b)
                model.distributions[k] = donor.distributions[k]       # the public list, in place
                desc_now = copy.deepcopy(desc_a)
                desc_now["dims"][k] = copy.deepcopy(desc_b["dims"][k])
                desc_now["families"][k] = desc_b["families"][k]
                desc_now["shapes"][k] = desc_b["shapes"][k]
            elif c["how"] == "set-fixed":      # the documented fixed_parameters dict of a conditional distribution
                desc_now = copy.deepcopy(desc_a)
                for i in range(1, c["n_dim"]):
                    if desc_a["cond"][i] is None:
                        continue
                    for pname in list(model.distributions[i].fixed_parameters):
                        model.distributions[i].fixed_parameters[pname] = model.distributions[i].fixed_parameters[pname] * 1.2
                        desc_now["dims"][i]["fixed"][pname] = desc_now["dims"][i]["fixed"][pname] * 1.2
            else:
                M.change_parameters(model)
                desc_now = M.change_description(desc_a)
            x2 = np.asarray(model.draw_sample(n, random_state=rs_of(c["rs"], c["seed"] + 3)), dtype=float)
            rec = judge_sample(model, desc_now, x2)
            fresh = M.from_description(vc, desc_now)
            x3 = np.asarray(fresh.draw_sample(n, random_state=rs_of(c["rs"], c["seed"] + 3)), dtype=float)
            if c["rs"] != "none":
                rec["fresh"] = bool(x2.shape == x3.shape and np.array_equal(x2, x3))
            # non-trivial: under the model as it was constructed the new sample would be rejected
            old = M.from_description(vc, desc_a)
            uo = pit_columns(old, desc_a, x2) if rec["finite"] else None
            moved = uo is not None and max(d5(ks_uniform(uo[:, i])) for i in range(c["n_dim"])) > 3 * 1190
    except Exception as e:  # noqa
        rec = dict(kind="ks", exc=f"{type(e).__name__}: {e}"[:200], n=n, overall=[], given=[], indep=[], extreme=[],
                   dups=[], finite=True, fresh=True)
        moved = False
    what = c["how"] + (f"[{c['entry']}]->{c['families_b'][c['entry']]}" if c["how"] == "replace-entry" else "")
    out.append(dict(rec=rec, key=f"model-history sample-after-{what} random_state={c['rs']} {model_key(c)}",
                    nontrivial=bool(moved), case=c, modelhist=True))
    return out


def refit_history_task(c):
    """one distribution OBJECT: draw_sample -> change it (fit with one of the methods the family
    supports, or write all / one of the parameter attributes directly) -> draw_sample again; shipped
    families and families derived from ScipyDistribution.  The second sample must follow the cdf of
    the CURRENT parameters and be bit-for-bit the sample of a fresh object with equal parameters."""
    vc = import_virocon()
    fam, how = c["families"][0], c["how"]
    rng = np.random.default_rng(c["seed"])
    pa = uni_params(rng, fam)
    pb = uni_params(rng, fam)
    cls = uni_class(vc, fam)
    out = []
    np.random.seed((c["seed"] + 23) % (2**32 - 1))

    def ks_rec(obj, x, params):
        rec = dict(kind="ks", exc="", n=c["n"], overall=[], given=[], indep=[], extreme=[], dups=[], finite=True, fresh=True)
        rec["finite"] = bool(np.all(np.isfinite(x))) and x.shape == (c["n"],)
        if rec["finite"]:
            xx = wrap_to(params["mu"], x) if fam == "vonmises" else x
            rec["overall"].append([int(len(x)), d5(ks_uniform(np.asarray(obj.cdf(xx), dtype=float)))])
        return rec
    with warnings.catch_warnings():
        warnings.simplefilter("ignore")
        obj = cls(**pa)
        x1 = np.asarray(obj.draw_sample(c["n"], random_state=rs_of(c["rs"], c["seed"] + 1)), dtype=float)
        out.append(dict(rec=ks_rec(obj, x1, pa), key=f"history first-sample {fam} n={c['n']} seed={c['seed']}",
                        nontrivial=True, case=c))
        try:
            if how == "assign":             # every parameter attribute written directly
                for k, v in pb.items():
                    setattr(obj, k, v)
            elif how == "assign-one":       # ONE parameter attribute written directly (the one that moves most)
                k1 = max(pb, key=lambda k: abs(pb[k] - pa[k]) / (abs(pa[k]) + 0.5))
                setattr(obj, k1, pb[k1])
            else:
                data = np.asarray(cls(**pb).draw_sample(c["n_data"], random_state=c["seed"] + 2), dtype=float)
                method, _, weights = how.partition(":")
                obj.fit(data, method=method, weights=weights or None)
        except Exception:  # noqa  (a failing fit is not the subject of this property)
            return out
        pcur = {k: float(v) for k, v in obj.parameters.items()}
        if not all(math.isfinite(v) for v in pcur.values()):
            return out
        x2 = np.asarray(obj.draw_sample(c["n"], random_state=rs_of(c["rs"], c["seed"] + 3)), dtype=float)
        rec = ks_rec(obj, x2, pcur)
        x3 = np.asarray(cls(**pcur).draw_sample(c["n"], random_state=rs_of(c["rs"], c["seed"] + 3)), dtype=float)
        if c["rs"] != "none":
            rec["fresh"] = bool(x2.shape == x3.shape and np.array_equal(x2, x3))
        # non-trivial: under the OLD parameters the new sample would be rejected
        old = cls(**pa)
        xo = wrap_to(pa["mu"], x2) if fam == "vonmises" else x2
        moved = rec["finite"] and d5(ks_uniform(np.asarray(old.cdf(xo), dtype=float))) > 3 * 1190
    out.append(dict(rec=rec, key=f"history sample-after-{how} {fam} n={c['n']} random_state={c['rs']} seed={c['seed']}",
                    nontrivial=bool(moved), case=c, refit=True, scipyhist=bool(c.get("scipyfam")) and how != "mle"))
    return out


def shape_task(c):
    out = []
    np.random.seed((c["seed"] + 3) % (2**32 - 1))
    if c["n_dim"] == 1:
        vc = import_virocon()
        desc = M.describe(np.random.default_rng(c["seed"]), 1, [None], c["families"], None)
        obj = M.dist_class(vc, c["families"][0])(**desc["dims"][0]["params"])
        name = f"{c['families'][0]}"
    else:
        obj, desc = get_model(c)
        name = model_key(c)
    for n in c["sizes"]:
        for rs in ("none", "int", "int0", "generator"):
            rec = dict(kind="shape", exc="", n=int(n), ndim=0 if c["n_dim"] == 1 else c["n_dim"], shape=[], finite=True)
            try:
                with warnings.catch_warnings():
                    warnings.simplefilter("ignore")
                    x = np.asarray(obj.draw_sample(int(n), random_state=rs_of(rs, c["seed"] + n)))
                rec["shape"] = [int(v) for v in x.shape]
                rec["finite"] = bool(np.all(np.isfinite(x)))
            except Exception as e:  # noqa
                rec["exc"] = f"{type(e).__name__}: {e}"[:200]
            out.append(dict(rec=rec, key=f"shape n={n} random_state={rs} {name}", nontrivial=True, case=c))
    return out


# ---- histories (leg R of RngStreams.tla) ----------------------------------------------------

_POOL = {}


def pool_objects(seed):
    """the real objects the abstract objects 1 and 2 of a history are mapped to"""
    if seed not in _POOL:
        _POOL[seed] = _pool_objects(seed)
    return _POOL[seed]


def _pool_objects(seed):
    vc = import_virocon()
    rng = np.random.default_rng(seed)
    objs = []
    for fam in M.FAMILIES:
        desc = M.describe(rng, 1, [None], [fam], None)
        objs.append((f"{fam}{ {k: round(v, 3) for k, v in desc['dims'][0]['params'].items()} }",
                     M.dist_class(vc, fam)(**desc["dims"][0]["params"])))
    for cond, fams in (([None, 0], ["weibull", "lognormal"]), ([None, 0, 1], ["expweibull", "normal", "gengamma"]),
                       ([None, 0, 0], ["lognormal", "vonmises", "weibull"]), ([None, None], ["normal", "gengamma"]),
                       ([None, None, 1], ["gengamma", "lognormfit", "normal"])):
        m = M.build_model(vc, rng, len(cond), cond, fams)
        objs.append((f"GHM cond={cond} families={','.join(fams)}", m))
    for style, cond, fams, sh in (("scalar", [None, 0], ["weibull", "normal"], [0, 1]),
                                  ("fixed", [None, 0, 1], ["lognormal", "weibull", "expweibull"], [0, 1, 2])):
        desc = M.describe(rng, len(cond), cond, fams, sh)
        M.constant_style(desc, style)
        objs.append((f"GHM cond={cond} families={','.join(fams)} constants={style}", M.from_description(vc, desc)))
    for fam in ("expweibull", "gengamma"):        # the small-shape region (samples through the icdf)
        pe = extreme_params(fam, rng)
        objs.append((f"{fam}{ {k: float(f'{v:.4g}') for k, v in pe.items()} }", M.dist_class(vc, fam)(**pe)))
    objs.append(("GHM extreme-shape conditional", M.from_description(vc, extreme_description(rng, 3))))
    return objs


def _seedtype_pool(seed):
    """objects for the histories whose integer seeds are spelled with NumPy integer types: models in which
    two variables are sampled by inversion of uniforms (Weibull / exponentiated Weibull), other models,
    and two plain distributions"""
    vc = import_virocon()
    rng = np.random.default_rng(seed)
    objs = []
    for cond, fams, sh in (([None, 0], ["weibull", "weibull"], [0, 4]), ([None, None], ["expweibull", "weibull"], [0, 0]),
                           ([None, 0], ["weibull", "expweibull"], [0, 2]), ([None, 0, 1], ["expweibull", "weibull", "lognormal"], [0, 3, 2]),
                           ([None, 0], ["lognormal", "normal"], [0, 4]), ([None, None, 0], ["weibull", "gengamma", "expweibull"], [0, 0, 4])):
        objs.append((f"GHM cond={cond} families={','.join(fams)}", M.build_model(vc, rng, len(cond), cond, fams, sh)))
    for fam in ("weibull", "normal"):
        desc = M.describe(rng, 1, [None], [fam], None)
        objs.append((f"{fam}{ {k: round(v, 3) for k, v in desc['dims'][0]['params'].items()} }",
                     M.dist_class(vc, fam)(**desc["dims"][0]["params"])))
    return objs


def hist_task(c):
    """replay one TLC history on real objects; with c["types"] the integer seeds A and B are spelled
    draw by draw with the listed integer types (python int, np.int64, np.int32, np.uint32): a seed is
    identified by its VALUE, so the stream model (and every clause) is the one of the plain history"""
    if c.get("types"):
        if ("seedtype", c["pool_seed"]) not in _POOL:
            _POOL[("seedtype", c["pool_seed"])] = _seedtype_pool(c["pool_seed"])
        pool = _POOL[("seedtype", c["pool_seed"])]
    else:
        pool = pool_objects(c["pool_seed"])
    names = {1: pool[c["objs"][0]][0], 2: pool[c["objs"][1]][0]}
    real = {1: pool[c["objs"][0]][1], 2: pool[c["objs"][1]][1]}
    np.random.seed(c["global_seed"])
    gens = {"gen1": np.random.default_rng(c["seed_c"]), "gen2": np.random.default_rng(c["seed_c"])}
    digs, seen = [], {}
    rec = dict(kind="hist", exc="", draws=c["draws"], dig=[])
    try:
        for d in c["draws"]:
            rs = {"none": None, "seedA": c["seed_a"], "seedB": c["seed_b"]}.get(d["rs"], gens.get(d["rs"]))
            if d.get("ty"):
                rs = spell_seed(d["ty"], rs)
            with warnings.catch_warnings():
                warnings.simplefilter("ignore")
                x = np.ascontiguousarray(np.asarray(real[d["obj"]].draw_sample(d["n"], random_state=rs), dtype=float))
            h = hashlib.sha1(repr(x.shape).encode() + x.tobytes()).hexdigest()
            digs.append(seen.setdefault(h, len(seen) + 1))
        rec["dig"] = digs
    except Exception as e:  # noqa
        rec["exc"] = f"{type(e).__name__}: {e}"[:200]
    hist = " ".join(f"{d['obj']}:{d['n']}:{d['rs']}" + (f"({d['ty']}({c['seed_a'] if d['rs'] == 'seedA' else c['seed_b']}))" if d.get("ty") else "")
                    for d in c["draws"])
    key = f"history [{hist}] obj1={names[1]} obj2={names[2]}"
    pairs = len(c["draws"]) * (len(c["draws"]) - 1) // 2
    return [dict(rec=rec, key=key, nontrivial=pairs > 0, case=c, seedtypes=bool(c.get("types")))]


def run_task(c):
    return {"ks": ks_task, "shape": shape_task, "hist": hist_task, "fitted": fitted_task,
            "refit_history": refit_history_task, "model_history": model_history_task}[c["task"]](c)


# ---- case selection ------------------------------------------------------------------------

def make_tasks(ctx, cfgs, hists):
    rng = np.random.default_rng(ctx.seed + 7)
    fam_i = ctx.seed

    def fams(n):
        nonlocal fam_i
        out = []
        for _ in range(n):
            out.append(M.FAMILIES[fam_i % len(M.FAMILIES)])
            fam_i += int(rng.integers(1, 4))
        return out

    def base(cfg):
        return dict(n_dim=cfg["n_dim"], cond=cfg["cond"], sh=cfg["sh"], families=fams(cfg["n_dim"]),
                    seed=int(rng.integers(1, 2**31 - 1)))
    tasks = []
    nbig = ctx.pick(100_000, 1_000_000)
    rskinds = ["int", "generator", "none"]
    k = ctx.seed
    # univariate: every family x 3 random_state kinds x repetitions
    for rep in range(ctx.pick(2, 10)):
        for fam in M.FAMILIES:
            for rs in rskinds:
                k += 1
                tasks.append(dict(task="ks", n_dim=1, cond=[None], sh=[0], families=[fam], rs=rs,
                                  seed=int(rng.integers(1, 2**31 - 1)),
                                  n=nbig if (k % 3 == 0) else 100_000))
    # joint: every 2-D configuration (x2 / x6), 3-D every 4th / all
    by_n = {n: [c for c in cfgs if c["n_dim"] == n] for n in (2, 3)}
    for rep in range(ctx.pick(2, 12)):
        for cfg in by_n[2]:
            k += 1
            tasks.append(dict(base(cfg), task="ks", rs=rskinds[k % 3], n=nbig if (k % 4 == 0) else 100_000))
    for rep in range(ctx.pick(1, 4)):
        for cfg in by_n[3]:             # all 384 (a stride would alias with the shape-class enumeration)
            k += 1
            tasks.append(dict(base(cfg), task="ks", rs=rskinds[k % 3], n=nbig if (k % 5 == 0) else 100_000))
    # exponentiated Weibull with delta 1e-3..1e-2 / generalized gamma with m 1e-3..2e-2 (scipy's rvs
    # underflows there): univariate, conditional with explicit parameters and in joint models
    rs4x = ["int", "generator", "none", "int0"]
    for rep in range(ctx.pick(4, 16)):
        for fam in ("expweibull", "gengamma"):
            k += 1
            sd = int(rng.integers(1, 2**31 - 1))
            tasks.append(dict(task="ks", n_dim=1, cond=[None], sh=[0], families=[fam], rs=rs4x[k % 4], seed=sd,
                              n=100_000, params=extreme_params(fam, np.random.default_rng(sd))))
    for rep in range(ctx.pick(2, 8)):
        for variant in range(4):
            k += 1
            sd = int(rng.integers(1, 2**31 - 1))
            d_ = extreme_description(np.random.default_rng(sd), variant)
            tasks.append(dict(task="ks", n_dim=d_["n_dim"], cond=d_["cond"], sh=d_["shapes"], families=d_["families"],
                              rs=rs4x[k % 4], seed=sd, n=100_000, desc=d_))
    # integer seed 0 (falsy): components sampled by the same mechanism must still be independent --
    # every 2-D configuration and a rotating third of the 3-D ones with all dimensions of ONE family
    same = ["weibull", "expweibull", "lognormal", "normal", "gengamma"]
    for rep in range(ctx.pick(1, 3)):
        for cfg in by_n[2]:
            k += 1
            tasks.append(dict(base(cfg), task="ks", rs="int0", n=100_000, families=[same[k % len(same)]] * 2))
        for idx, cfg in enumerate(by_n[3]):
            if (idx + rep + ctx.seed) % 3 == 0:
                k += 1
                tasks.append(dict(base(cfg), task="ks", rs="int0", n=100_000, families=[same[k % len(same)]] * 3))
    # parameters that are CONSTANT in the given, written as a scalar-returning callable (lambda x, a: a) or
    # as a fixed parameter of the conditional distribution (shape class 1: all of them; 2, 3: mixed with
    # varying ones): still one independent draw per row
    rs4 = ["int", "generator", "none", "int0"]
    cfgs_c = [c_ for c_ in by_n[2] if c_["cond"][1] == 0 and c_["sh"][1] in (1, 2, 3)] + \
             [c_ for i_, c_ in enumerate(by_n[3]) if any(k_ is not None for k_ in c_["cond"])
              and any(k_ is not None and s_ in (1, 2, 3) for k_, s_ in zip(c_["cond"], c_["sh"]))
              and (i_ + ctx.seed) % ctx.pick(5, 1) == 0]
    for idx, cfg in enumerate(cfgs_c):
        for style in ("scalar", "fixed"):
            k += 1
            tasks.append(dict(base(cfg), task="ks", rs=rs4[k % 4], n=100_000, style=style))
    for fam in M.FAMILIES:
        tasks.append(dict(task="ks", n_dim=1, cond=[None], sh=[0], families=[fam], rs="int0",
                          seed=int(rng.integers(1, 2**31 - 1)), n=100_000))
    # fitted models (conditioning_values set by fit()): synthetic 2-D / 3-D and the shipped data set A
    for rep in range(ctx.pick(2, 8)):
        for nd in (2, 3):
            tasks.append(dict(task="fitted", source="synthetic", n_dim=nd, n_data=20000, n=ctx.pick(200_000, 400_000),
                              rs=["int", "int0", "generator", "none"][(rep + nd) % 4], presample=bool(rep % 2),
                              seed=int(rng.integers(1, 2**31 - 1))))
    tasks.append(dict(task="fitted", source="dataset", n_dim=2, n=ctx.pick(200_000, 1_000_000), rs="int", seed=ctx.seed + 5))
    for pre in (True, False):
        tasks.append(dict(task="fitted", source="dataset-omae-wlsq", n_dim=2, n=ctx.pick(200_000, 1_000_000), rs="int",
                          seed=ctx.seed + 6, presample=pre))
    tasks.append(dict(task="fitted", source="dataset", n_dim=2, n=200_000, rs="generator", seed=ctx.seed + 8, presample=True))
    # histories on one MODEL object: construct -> sample -> modify in place -> sample
    hcfg = [c_ for c_ in by_n[2] if c_["cond"][1] == 0 and c_["sh"][1] != 1] + \
           [c_ for c_ in by_n[3] if c_["cond"][1] == 0 and c_["cond"][2] in (0, 1) and 1 not in c_["sh"][1:]]
    for j in range(ctx.pick(18, 90)):
        cfg = hcfg[(j * 7 + ctx.seed) % len(hcfg)]
        b = base(cfg)
        k += 1
        how = ["replace-entry", "replace-entry", "set-parameters"][j % 3]
        t = dict(b, task="model_history", how=how, rs=["int", "generator", "int0", "none"][k % 4], n=100_000)
        if how == "replace-entry":
            t["entry"] = [0, cfg["n_dim"] - 1, 0, 1][(j // 3) % 4]
            fb = list(b["families"])
            if (j // 3) % 2 == 0:          # another family; otherwise the same family with other parameters
                fb[t["entry"]] = M.FAMILIES[(M.FAMILIES.index(fb[t["entry"]]) + 1 + j % 5) % len(M.FAMILIES)]
            t["families_b"] = fb
        tasks.append(t)
    # ... the same with parameters that are constant in the given: scalar-returning dependence functions
    # whose coefficient is changed, and fixed parameters changed through fixed_parameters (same n twice)
    ccfg = [c_ for c_ in by_n[2] if c_["cond"][1] == 0 and c_["sh"][1] in (1, 2, 3)] + \
           [c_ for c_ in by_n[3] if c_["cond"][1] == 0 and c_["cond"][2] in (0, 1) and c_["sh"][1] in (1, 2, 3)
            and c_["sh"][2] in (1, 2, 3)]
    for j in range(ctx.pick(10, 40)):
        cfg = ccfg[(j * 5 + ctx.seed) % len(ccfg)]
        k += 1
        style, how = [("scalar", "set-parameters"), ("fixed", "set-fixed")][j % 2]
        tasks.append(dict(base(cfg), task="model_history", how=how, style=style,
                          rs=["int", "generator", "int0", "none"][k % 4], n=100_000))
    # histories on one distribution object: sample -> fit (every method the family supports) / assign -> sample
    hows = {fam: ["mle", "assign"] for fam in M.FAMILIES}
    hows["expweibull"] = ["mle", "lsq", "wlsq:linear", "wlsq:quadratic", "wlsq:cubic", "assign"]
    for rep in range(ctx.pick(1, 4)):
        for fam in M.FAMILIES:
            for how in hows[fam]:
                k += 1
                tasks.append(dict(task="refit_history", n_dim=1, cond=[None], sh=[0], families=[fam], how=how,
                                  rs=["int", "generator", "int0", "none"][k % 4], n=100_000, n_data=3000,
                                  seed=int(rng.integers(1, 2**31 - 1))))
    # shapes: sizes 1, 2, 1000, 1e5 (1e6) x random_state kinds, every family and a few models
    sizes = [1, 2, 1000, 100_000] + ([1_000_000] if not ctx.quick else [])
    for fam in M.FAMILIES:
        tasks.append(dict(task="shape", n_dim=1, cond=[None], sh=[0], families=[fam], sizes=sizes,
                          seed=int(rng.integers(1, 2**31 - 1))))
    for cfg in by_n[2][5::ctx.pick(8, 2)] + by_n[3][7::ctx.pick(48, 8)]:
        tasks.append(dict(base(cfg), task="shape", sizes=sizes))
    for j, cfg in enumerate([c_ for c_ in by_n[2] if c_["cond"][1] == 0 and c_["sh"][1] == 1][:4] +
                            [c_ for c_ in by_n[3] if c_["cond"] == [None, 0, 1] and c_["sh"][1] == 1][:4]):
        tasks.append(dict(base(cfg), task="shape", sizes=sizes, style=["scalar", "fixed"][j % 2]))
    # histories
    P = 17
    for j, h in enumerate(hists):
        a = (j + ctx.seed) % P
        b = (a + 1 + (j // P) % (P - 1)) % P
        tasks.append(dict(task="hist", draws=h, objs=[a, b], pool_seed=ctx.seed + 99,
                          seed_a=0, seed_b=2000 + ctx.seed, seed_c=3000 + ctx.seed,
                          global_seed=(ctx.seed + 4242 + j) % (2**32 - 1)))
    # ---- added later: placed last so that the seeds of the cases above do not change ----
    # the integer seed spelled with a NumPy integer type (np.int64 / np.int32 / np.uint32, the falsy np.int64(0)):
    # the variables of a joint sample must still be served by ONE stream.  Every 2-D configuration and a rotating
    # part of the 3-D ones, all variables sampled by inversion of uniforms (Weibull / exponentiated Weibull): if
    # every variable seeded its own stream from the same integer, their Rosenblatt components would coincide
    inv = [["weibull", "weibull"], ["expweibull", "weibull"], ["weibull", "expweibull"], ["expweibull", "expweibull"]]
    npk = ["np.int64", "np.int32", "np.uint32", "np.int64-0"]
    for rep in range(ctx.pick(1, 3)):
        for cfg in by_n[2]:
            k += 1
            tasks.append(dict(base(cfg), task="ks", rs=npk[k % 4], n=100_000, families=inv[(k // 4) % 4], seedtype=True))
        for idx, cfg in enumerate(by_n[3]):
            if (idx + rep + ctx.seed) % ctx.pick(8, 3) == 0:
                k += 1
                tasks.append(dict(base(cfg), task="ks", rs=npk[k % 4], n=100_000, seedtype=True,
                                  families=inv[(k // 4) % 4] + [["weibull", "expweibull"][(k // 16) % 2]]))
    for fam in M.FAMILIES:          # a plain distribution seeded with a NumPy integer
        k += 1
        tasks.append(dict(task="ks", n_dim=1, cond=[None], sh=[0], families=[fam], rs=npk[k % 4],
                          seed=int(rng.integers(1, 2**31 - 1)), n=100_000))
    # ... one attribute written directly (shipped families), and families derived from ScipyDistribution:
    # a fresh sample, and draw -> write all / one attribute / fit -> draw again
    for rep in range(ctx.pick(1, 4)):
        for fam in M.FAMILIES:
            k += 1
            tasks.append(dict(task="refit_history", n_dim=1, cond=[None], sh=[0], families=[fam], how="assign-one",
                              rs=["int", "generator", "int0", "none"][k % 4], n=100_000, n_data=3000,
                              seed=int(rng.integers(1, 2**31 - 1))))
    for rep in range(ctx.pick(2, 6)):
        for fam in SCIPY_FAMILIES:
            k += 1
            tasks.append(dict(task="ks", n_dim=1, cond=[None], sh=[0], families=[fam], rs=rs4x[k % 4], n=100_000,
                              seed=int(rng.integers(1, 2**31 - 1))))
            for how in ("assign", "assign-one", "mle"):
                k += 1
                tasks.append(dict(task="refit_history", n_dim=1, cond=[None], sh=[0], families=[fam], how=how,
                                  rs=["int", "generator", "int0", "none"][k % 4], n=100_000, n_data=3000,
                                  seed=int(rng.integers(1, 2**31 - 1)), scipyfam=True))
    # the histories that draw twice from the same call with the same integer seed, replayed with the seed spelled
    # draw by draw as python int / np.int64 / np.int32 / np.uint32 (step 0: one NumPy type throughout = "reproducible
    # by a NumPy integer seed"; step 1: a different type per draw = "the seed is its value"), on models whose
    # variables are sampled by inversion and on plain distributions; seed A alternates between 0 and a positive value
    typed = [h for h in hists if any(a["rs"] in ("seedA", "seedB") and a["rs"] == b["rs"] and a["obj"] == b["obj"]
                                     and a["n"] == b["n"] for i, a in enumerate(h) for b in h[i + 1:])]
    PT = 8
    for j, h in enumerate(typed[::ctx.pick(1, 2)]):
        a = (j + ctx.seed) % PT
        b = (a + 1 + (j // PT) % (PT - 1)) % PT
        step = j % 2
        # step 0: one NumPy type throughout (never the python int: that is the plain history)
        draws = [dict(d, ty="" if d["rs"] not in ("seedA", "seedB") else
                      SEED_SPELLINGS[(j // 2 + i) % 4] if step else SEED_SPELLINGS[1 + (j // 2) % 3])
                 for i, d in enumerate(h)]
        tasks.append(dict(task="hist", draws=draws, objs=[a, b], pool_seed=ctx.seed + 77, types=True,
                          seed_a=[0, 1000 + ctx.seed][(j // 2) % 2], seed_b=2000 + ctx.seed, seed_c=3000 + ctx.seed,
                          global_seed=(ctx.seed + 777 + j) % (2**32 - 1)))
    return tasks


# ---- judge ---------------------------------------------------------------------------------

def judge(ctx, results, label):
    recs, meta = [], []
    for outs in results:
        for o in outs:
            rec = dict(o["rec"])
            rec["id"] = len(recs) + 1
            recs.append(rec)
            meta.append(o)
    failing = ctx.validate("Trace_C07", "Trace_C07.cfg", recs, chunk=5000)
    for rec, o in zip(recs, meta):
        ctx.case(o["key"], nontrivial=o["nontrivial"])
        for clause in failing.get(rec["id"], []):
            if rec["kind"] == "ks":
                worst = {f: max((t[1] for t in rec[f]), default=0) for f in ("overall", "given", "extreme", "indep")}
                worst["extreme regions [n, d5]"] = rec["extreme"]
                worst["duplicated values per column"] = rec["dups"]
                detail = f"exc={rec['exc']} n={rec['n']} max distance (1e-5) {worst} finite={rec['finite']}"
            else:
                detail = str({k: rec[k] for k in rec if k not in ("id", "kind")})
            ctx.violation(clause, o["key"], detail, replay=o["case"])
    ctx.log(f"{label}: {len(recs)} records judged, {sum(1 for r in recs if r['id'] in failing)} rejected")
    return recs, meta, failing


def selftest(ctx):
    draws = [dict(obj=1, n=4, rs="seedA"), dict(obj=1, n=4, rs="seedA"), dict(obj=1, n=4, rs="seedB")]
    gd = [dict(obj=1, n=4, rs="gen1"), dict(obj=1, n=4, rs="gen2"), dict(obj=1, n=4, rs="gen1")]
    nn = [dict(obj=1, n=4, rs="none"), dict(obj=2, n=4, rs="seedA"), dict(obj=1, n=4, rs="none")]
    td = [dict(obj=1, n=4, rs="seedA", ty="int"), dict(obj=1, n=4, rs="seedA", ty="np.int64"),
          dict(obj=2, n=4, rs="none", ty="")]
    ok = dict(kind="ks", exc="", n=100000, overall=[[100000, 1100]], given=[[12500, 3300]], indep=[],
              extreme=[[4000, 5900]], dups=[0, 3], finite=True, fresh=True)
    muts = [("SameSeedSameSample", dict(kind="hist", exc="", draws=draws, dig=[1, 2, 3])),
            ("DifferentSeedsDiffer", dict(kind="hist", exc="", draws=draws, dig=[1, 1, 1])),
            ("SameSeedSameSample", dict(kind="hist", exc="", draws=td, dig=[1, 2, 3])),    # 0 and np.int64(0) differ
            ("GeneratorAdvances", dict(kind="hist", exc="", draws=gd, dig=[1, 1, 1])),
            ("EqualGeneratorsEqualSample", dict(kind="hist", exc="", draws=gd, dig=[1, 2, 3])),
            ("StreamsIndependent", dict(kind="hist", exc="", draws=nn, dig=[1, 1, 2])),
            ("PatternIsStreamModel", dict(kind="hist", exc="", draws=nn, dig=[1, 2, 1])),
            ("ShapeHonoured", dict(kind="shape", exc="", n=5, ndim=2, shape=[2, 5], finite=True)),
            ("ShapeHonoured", dict(kind="shape", exc="", n=1, ndim=0, shape=[1, 1], finite=True)),
            ("SampleFollowsCdf", dict(ok, overall=[[100000, 1200]])),
            ("ConditionalOnSameRowValue", dict(ok, given=[[12500, 3400]])),
            ("ComponentsIndependent", dict(ok, indep=[[12500, 40000]])),
            ("ConditionalOutsideFittedRange", dict(ok, extreme=[[4000, 6000]])),
            ("SameAsFreshObject", dict(ok, fresh=False)),
            ("RowsDrawnIndependently", dict(ok, dups=[0, 4])),
            ("SampleFinite", dict(ok, finite=False))]
    good = [dict(ok), dict(kind="hist", exc="", draws=draws, dig=[1, 1, 2]), dict(kind="hist", exc="", draws=td, dig=[1, 1, 2]),
            dict(kind="hist", exc="", draws=gd, dig=[1, 1, 2])]
    recs = []
    for cl, r in muts:
        r["id"] = len(recs) + 1
        recs.append(r)
    for r in good:
        r["id"] = len(recs) + 1
        recs.append(r)
    t = ctx.traces
    f = ctx.validate("Trace_C07", "Trace_C07.cfg", recs)
    ctx.traces = t
    for cl, r in muts:
        if cl not in f.get(r["id"], []):
            raise Machinery(f"selftest: corrupted record not rejected by {cl}: {f.get(r['id'])}")
    for r in good:
        if r["id"] in f:
            raise Machinery(f"selftest: a conforming record was rejected: {f[r['id']]} {r}")
    ctx.log(f"selftest: {len(muts)} corrupted records rejected by their clauses, {len(good)} conforming accepted")


def run(ctx):
    import_virocon()
    ctx.rule = ("univariate: 7 families x random_state {int, Generator, None} x 2/10 parameter draws, n = 1e5 (every "
                "3rd-5th 1e6 in thorough); joint: every TLC-enumerated 2-D configuration (x2/x12) and every 3-D "
                "configuration (x1/x4), concretised over the 7 families; shapes for n in {1,2,1000,1e5(,1e6)} x 3 "
                "random_state kinds; families derived from ScipyDistribution (gamma, gumbel_r, weibull_min): fresh "
                "samples and the histories draw -> write all / one parameter attribute / fit -> draw again (one "
                "attribute also for the 7 shipped families); the integer seed spelled as np.int64 / np.int32 / np.uint32 / np.int64(0): joint "
                "samples of every 2-D and every 8th/3rd 3-D configuration with all variables sampled by inversion "
                "(Weibull / exponentiated Weibull), every family univariate, and the TLC histories that repeat a "
                "seeded call replayed with the seed spelled per draw as int / np.int64 / np.int32 / np.uint32 (a seed "
                "is its value); every TLC-emitted draw history of length <= 3 over 5 random_state values x 2 "
                "objects (x 2 sizes in thorough) replayed on a rotating pair out of 17 real objects (9 "
                "distributions incl. small-shape exponentiated Weibull / generalized gamma, 8 models incl. scalar / fixed constants). distinct = distinct (call, object/model, random_state, history); "
                "non-trivial = joint: a dependence that varies with the given; history: at least one pair of draws")
    ctx.trusted = ["TLC evaluating spec/Trace_C07.tla (DKW inequality in integer arithmetic)",
                   "the model's own distributions[i].cdf as the probability integral transform",
                   "Kolmogorov distance computed by hand from the sorted PIT values; sha1 digests of sample bytes",
                   "harness/models.py parameter evaluation (von Mises location for the comparison modulo 2 pi)"]
    ctx.assumptions = ["DKW bound at error probability 1e-12 per comparison (<= 2e4 comparisons per run)",
                       "positions of a stream are compared as draw histories; samples drawn from the same stream at "
                       "positions that are not comparable are not judged ('unk')",
                       "integer seeds a = 0, b, c pairwise different; Generators g, g' are created from the same seed c"]
    ctx.model_check("Rosenblatt", ctx.pick("MC_Rosenblatt_c07_quick.cfg", "MC_Rosenblatt_c07_thorough.cfg"),
                    must_cover=("SampleStep",))
    ctx.model_check("Rosenblatt", "MC_Rosenblatt_c07_otherrow.cfg", expect_violation="InverseRosenblatt")
    ctx.model_check("Rosenblatt", "MC_Rosenblatt_c07_wrongcol.cfg", expect_violation="InverseRosenblatt")
    ctx.model_check("Rosenblatt", "MC_Rosenblatt_c07_clipgiven.cfg", expect_violation="InverseRosenblatt")
    ctx.model_check("Rosenblatt", "MC_Rosenblatt_c07_constshared.cfg", expect_violation="InverseRosenblatt")
    # the model may be modified between construction and sampling; sampling reads the current state
    ctx.model_check("Rosenblatt", "MC_Rosenblatt_c07_replace.cfg", must_cover=("Replace", "SampleStep"))
    ctx.model_check("Rosenblatt", "MC_Rosenblatt_c07_frozenplan.cfg", expect_violation="InverseRosenblatt")
    ctx.model_check("RngStreams", ctx.pick("MC_RngStreams_quick.cfg", "MC_RngStreams_thorough.cfg"),
                    must_cover=("Draw",))
    ctx.model_check("RngStreams", "MC_RngStreams_noadvance.cfg", expect_violation="GeneratorAdvances")
    ctx.model_check("RngStreams", "MC_RngStreams_ignoreseed.cfg", expect_violation="SameSeedSameSample")
    cfgs = M.tlc_configs(ctx, "Gen_Rosenblatt3.cfg")
    hists = ctx.generate("RngStreams", ctx.pick("Gen_RngStreams_quick.cfg", "Gen_RngStreams_thorough.cfg"))
    hists.sort(key=lambda h: (len(h), [(d["obj"], d["n"], d["rs"]) for d in h]))
    tasks = make_tasks(ctx, cfgs, hists)
    results = M.pmap(run_task, tasks, workers=ctx.pick(6, 10))
    recs, meta, failing = judge(ctx, results, "samples + histories")
    kinds = {}
    for r in recs:
        kinds[r["kind"]] = kinds.get(r["kind"], 0) + 1
    ncmp = sum(len(r["overall"]) + len(r["given"]) + len(r["indep"]) for r in recs if r["kind"] == "ks")
    colsens = sum(1 for o in meta if o.get("colsens"))
    ctx.notes["models_sensitive_to_the_conditioning_column"] = colsens
    nconst = sum(1 for o in meta if o["case"].get("style") and o["case"].get("task") == "ks")
    ctx.notes["models_with_scalar_or_fixed_constant_parameters"] = nconst
    if not ctx.violations and nconst < 20:
        raise Machinery(f"vacuous: only {nconst} models with scalar / fixed constant conditional parameters")
    nmh = sum(1 for o in meta if o.get("modelhist") and o["nontrivial"])
    ctx.notes["model_histories_whose_modification_moved_the_distribution"] = nmh
    if not ctx.violations and nmh < 8:
        raise Machinery(f"vacuous: only {nmh} construct -> sample -> modify -> sample histories changed the model")
    nrefit = sum(1 for o in meta if o.get("refit") and o["nontrivial"])
    ctx.notes["samples_after_fit_or_assignment_with_moved_parameters"] = nrefit
    if not ctx.violations and nrefit < 8:
        raise Machinery(f"vacuous: only {nrefit} sample -> fit -> sample histories changed the distribution")
    nst = sum(1 for o in meta if o.get("seedtype") and o["case"].get("task") == "ks")
    nth = sum(1 for o in meta if o.get("seedtypes"))
    ctx.notes["joint_samples_seeded_with_a_numpy_integer_all_variables_by_inversion"] = nst
    ctx.notes["histories_replayed_with_numpy_integer_spellings_of_the_seed"] = nth
    if not ctx.violations and (nst < 15 or nth < 40):
        raise Machinery(f"vacuous: only {nst} joint samples / {nth} histories with a NumPy integer seed")
    nsh = sum(1 for o in meta if o.get("scipyhist") and o["nontrivial"])
    ctx.notes["scipydistribution_subclass_samples_after_direct_parameter_write_with_moved_parameters"] = nsh
    if not ctx.violations and nsh < 6:
        raise Machinery(f"vacuous: only {nsh} draw -> write parameters -> draw histories on ScipyDistribution subclasses moved")
    ext = sum(o.get("extreme_regions", 0) for o in meta)
    ctx.notes["fitted_models"] = sum(1 for o in meta if "extreme_regions" in o)
    ctx.notes["extreme_conditioning_regions_judged"] = ext
    if not ctx.violations:
        selftest(ctx)
        if ext < 2:
            raise Machinery(f"vacuous: only {ext} conditioning regions outside the fitted range were judged")
        if colsens < 20:
            raise Machinery(f"vacuous: only {colsens} sampled models would notice a wrong conditioning column")
        if min(kinds.get(k, 0) for k in ("ks", "shape", "hist")) == 0:
            raise Machinery(f"vacuous: record kinds {kinds}")
    for pred in (lambda r: r["kind"] == "ks" and r["given"], lambda r: r["kind"] == "hist" and len(r["draws"]) == 3,
                 lambda r: r["kind"] == "shape"):
        i = next((k for k, r in enumerate(recs) if pred(r)), None)
        if i is not None:
            ctx.sample({"case": meta[i]["case"], "record": recs[i]})
    ctx.exhaustive = False
    ctx.notes["records_by_kind"] = kinds
    ctx.notes["dkw_comparisons"] = ncmp
    ctx.notes["histories_replayed"] = len(hists)


def replay(ctx, case):
    import_virocon()
    judge(ctx, [run_task(case["case"])], "replay")
