----------------------------- MODULE Trace_C06 -----------------------------
(* Trace validation for C06 (joint density factorises; cdf and marginals are its          *)
(* integrals).  Record kinds:                                                             *)
(*  "pdf"      one model, one batch of evaluation points passed to model.pdf in several    *)
(*             input kinds; per kind the relative deviation (units 1e-15, clamped) of every *)
(*             returned value from the driver's own product of distributions[i].pdf(x_i,    *)
(*             given = x[cond[i]]) -- PdfStep of Rosenblatt.tla on measured values --       *)
(*             and the sign of every value.  Kinds named kept_...: the points are passed    *)
(*             ONE PER CALL (row vector, list, (1, n_dim) array, int list) and whatever a    *)
(*             call returned is kept as returned until every point of every spelling has     *)
(*             been evaluated (in some records with a marginal_pdf / marginal_cdf / cdf call *)
(*             on the same model in between); rel is read from the kept results at the END:  *)
(*             the value a caller holds for a point is the density at THAT point, whatever   *)
(*             was evaluated afterwards (relnow, read right after the call, is not judged)   *)
(*  "integral" model.cdf / marginal_pdf / marginal_cdf at one point against an independent  *)
(*             one-dimensional (3-D: two-dimensional) quadrature over the CONDITIONAL cdf   *)
(*             (probabilities scaled 1e9, densities 1e8)                                    *)
(*  "icdf"     marginal_icdf(p) mapped back through the reference marginal cdf              *)
EXTENDS RosenblattOps, Json, IOUtils, TLC

TraceLog == ndJsonDeserialize(IOEnv.TRACE_FILE)
VARIABLE l

(* pdf: the model multiplies the same factors the driver multiplies; products of <= 4       *)
(* doubles in a different association differ by < 1e-15 relative; tolerance 1e-12.          *)
PdfTol == 1000
AllWithin(s, tol) == \A k \in 1..Len(s) : Abs(s[k]) <= tol
FloatKinds(r) == {k \in 1..Len(r.kinds) : ~r.kinds[k].isint}
IntKinds(r) == {k \in 1..Len(r.kinds) : r.kinds[k].isint}

PdfClauses(r) ==
  IF r.exc # "" THEN << <<"UnexpectedException", FALSE>> >>
  ELSE <<
    <<"ResultShape", \A k \in 1..Len(r.kinds) : r.kinds[k].shapeok /\ Len(r.kinds[k].rel) = r.kinds[k].n>>,
    <<"Factorises", \A k \in FloatKinds(r) : AllWithin(r.kinds[k].rel, PdfTol)>>,
    <<"KindsAgree", \A k \in IntKinds(r) : AllWithin(r.kinds[k].rel, PdfTol)>>,
    <<"NonNeg", \A k \in 1..Len(r.kinds) : \A j \in 1..Len(r.kinds[k].sign) : r.kinds[k].sign[j] >= 0>>
  >>

(* integrals: scipy.integrate.nquad works to 1.5e-8 per level, the reference quadrature to   *)
(* 1e-10; tolerance 1e-6 absolute (in the unit of the scale) + 1e-6 relative.  A wrong       *)
(* column, a dropped factor or a wrong argument order change the value by >= 1e-3.          *)
IntOk(r) == WithinRel(r.val, r.ref, IF r.what = "marginal_pdf" THEN 100 ELSE 1000, 1000000)
IntegralClauses(r) ==
  IF r.exc # "" THEN << <<"UnexpectedException", FALSE>> >>
  ELSE <<
    <<"CdfMatches", r.what = "cdf" /\ ~r.isint => IntOk(r)>>,
    <<"MarginalsMatch", r.what \in {"marginal_pdf", "marginal_cdf"} /\ ~r.isint => IntOk(r)>>,
    <<"NormalisedToOne", r.what = "mass" => Within(r.val, 1000000000, 1000) /\ IntOk(r)>>,
    <<"KindsAgree", r.isint => IntOk(r)>>,
    <<"NonNeg", r.val >= 0>>
  >>

(* marginal_icdf: exact for an unconditional dimension (n = 0): |F(x_p) - p| <= 1e-6;        *)
(* otherwise x_p is the interpolated p-quantile of a Monte-Carlo sample of size n, so        *)
(* |F(x_p) - p| <= D_n + 1/n with D_n the Kolmogorov distance of the sample; DKW at error     *)
(* probability 1e-12 (DkwOk in RosenblattOps).                                                *)
IcdfClauses(r) ==
  << <<"IcdfInvertsCdf",
       IF r.n = 0 THEN Within(r.F, r.p, 1000)
       ELSE LET d9 == Abs(r.F - r.p)                           \* units 1e-9
                slack == (1000000000 \div r.n) + 1000          \* 1/n + reference quadrature
            IN DkwOk(Max2(d9 - slack, 0) \div 10000, r.n)>> >>

(* evaluation history on ONE model object (construct, evaluate, modify in place, evaluate the same  *)
(* points again): pdfrel = deviation of model.pdf (single points and arrays) from the factorised    *)
(* product of the CURRENT objects; freshrel = deviation from a freshly constructed model with the   *)
(* same current parameters; ints = marginal_pdf / cdf against the reference quadrature and against  *)
(* the fresh model (which runs the same nquad: 1e-9 relative + 1 unit)                              *)
HistIntOk(e) == WithinRel(e.val, e.ref, IF e.what = "marginal_pdf" THEN 100 ELSE 1000, 1000000)
HistoryClauses(r) ==
  IF r.exc # "" THEN << <<"UnexpectedException", FALSE>> >>
  ELSE <<
    <<"Factorises", AllWithin(r.pdfrel, PdfTol)>>,
    <<"SameAsFreshModel", /\ AllWithin(r.freshrel, PdfTol)
                          /\ \A k \in 1..Len(r.ints) : WithinRel(r.ints[k].val, r.ints[k].fresh, 1, 1000000000)>>,
    <<"MarginalsMatch", \A k \in 1..Len(r.ints) : r.ints[k].what = "marginal_pdf" => HistIntOk(r.ints[k])>>,
    <<"CdfMatches", \A k \in 1..Len(r.ints) : r.ints[k].what = "cdf" => HistIntOk(r.ints[k])>>
  >>

(* a variable addressed from the end (dim = -k) or by a numpy integer: val = the call with that    *)
(* dim, same = the same call with dim = n_dim-k (identical computation: 1e-9 relative + 1 unit),    *)
(* ref = the reference marginal of variable n_dim-k; an out-of-range dim must raise                 *)
AliasClauses(r) ==
  IF r.exc # "" THEN << <<"UnexpectedException", FALSE>> >>
  ELSE IF r.what \in {"marginal_pdf-out-of-range", "marginal_cdf-out-of-range", "marginal_icdf-out-of-range"}
  THEN << <<"OutOfRangeDimRejected", r.raised>> >>
  ELSE <<
    <<"DimAliasesAgree", WithinRel(r.val, r.same, 1, 1000000000)>>,
    <<"MarginalsMatch", r.what # "marginal_icdf" =>
         WithinRel(r.val, r.ref, IF r.what = "marginal_pdf" THEN 100 ELSE 1000, 1000000)>>
  >>

Clauses(r) == CASE r.kind = "pdf" -> PdfClauses(r)
                [] r.kind = "alias" -> AliasClauses(r)
                [] r.kind = "history" -> HistoryClauses(r)
                [] r.kind = "integral" -> IntegralClauses(r)
                [] r.kind = "icdf" -> IcdfClauses(r)
Verdict(r) == Failing(Clauses(r))

Init == l = 1
Next == /\ l <= Len(TraceLog)
        /\ LET r == TraceLog[l] v == Verdict(r) IN
             \* one short line per failing clause: TLC wraps tuples longer than 80 columns
             \A c \in 1..Len(v) : PrintT(<<"VERDICT", r.id, <<v[c]>>>>)
        /\ l' = l + 1
Spec == Init /\ [][Next]_l
Consumed == l = Len(TraceLog) + 1 => PrintT(<<"CONSUMED", l - 1>>)
=============================================================================
