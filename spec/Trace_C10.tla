----------------------------- MODULE Trace_C10 -----------------------------
(* Trace validation for C10: every record is one real execution of an IntervalSlicer   *)
(* (raw call with nothing dropped + configured call), projected onto the lattice of    *)
(* Slicing.tla.  TLC judges every clause of the property on every record.              *)
EXTENDS SlicingOps, Json, IOUtils, TLC

TraceLog == ndJsonDeserialize(IOEnv.TRACE_FILE)
VARIABLE l

N(r) == Len(r.data)
K(r) == Len(r.raw)
MasksOk(r) == \A i \in 1..K(r) : Len(r.raw[i]) = N(r) /\ \A j \in 1..N(r) : r.raw[i][j] \in {0, 1}

IdealK(r) == CASE r.kind = "width" -> WidthCount(r.lo, r.hi, r.upw)
               [] r.kind = "number" -> r.n
               [] r.kind = "points" -> Len(ChunkBounds(N(r), r.n, r.lastfull))

Cov(r, j) == CASE r.kind = "width" -> Covered(r.data[j], r.lo, r.hi, r.ropen)
               [] r.kind = "number" -> NumCovered(r.data[j], r.lo, r.hi, r.incmax)
               [] r.kind = "points" -> TRUE

Acc(r, j) == CASE r.kind = "width" -> Acceptable(r.data[j], r.lo, r.upw, r.ropen, r.exact, K(r))
               [] r.kind = "number" ->
                    NumAcceptable(r.data[j], r.lo, r.hi, r.upw, r.n, r.incmax, r.exact)
               [] r.kind = "points" -> 1..K(r)

SortedAll(r) == SortedVals(r.data, AllOnes(N(r)))

(* points: the values at the masked input positions are exactly the chunk of the sorted data *)
PointsAligned(r) ==
    LET cb == ChunkBounds(N(r), r.n, r.lastfull) s == SortedAll(r) IN
      \A c \in 1..K(r) : SortedVals(r.data, r.raw[c]) = SubSeqS(s, cb[c][1], cb[c][2])

RefExpected(r, i) ==
    IF r.refkind = "median" THEN MedianQ(r.data, r.raw[i])
    ELSE RefQ(r.refkind, i, r.lo, r.upw)

RefsOk(r) ==
    \A i \in 1..K(r) :
       \/ (r.refkind = "median" /\ Cnt(r.raw[i]) = 0)      \* reference of an empty interval: undefined
       \/ r.refsq[i] = RefExpected(r, i)

BoundsValueOk(r) ==
    IF r.kind = "points"
    THEN LET ne == {i \in 1..K(r) : Cnt(r.raw[i]) > 0} IN
           \A i \in ne :
             LET mn == 4 * SetMin({r.data[j] : j \in Ones(r.raw[i])})
                 mx == 4 * SetMax({r.data[j] : j \in Ones(r.raw[i])})
             IN /\ (i = 1 => r.loq[i] = mn)
                /\ (i = K(r) => r.hiq[i] = mx)
                /\ (i < K(r) /\ (i + 1) \in ne =>
                      LET mn2 == 4 * SetMin({r.data[j] : j \in Ones(r.raw[i + 1])})
                      IN 2 * r.hiq[i] = mx + mn2 /\ r.loq[i + 1] = r.hiq[i])
    ELSE \A i \in 1..Min2(K(r), IdealK(r)) :
           r.loq[i] = LoQ(i, r.lo, r.upw) /\ r.hiq[i] = HiQ(i, r.lo, r.upw)

KeptExpected(r) == Kept(r.raw, r.raw, r.minpts)

(* The NUMBER of raw intervals is not part of the property (trailing empty intervals are     *)
(* harmless); only membership, references, boundaries and the drop / error rules are judged. *)
Clauses(r) ==
  IF r.exc # "" THEN << <<"UnexpectedException", FALSE>> >>
  ELSE IF ~MasksOk(r) THEN << <<"MaskShape", FALSE>> >>
  ELSE <<
    (* intervals are created for the configured value range only: at most one more than the ideal   *)
    (* number (float arange may add one), none that starts beyond the upper limit                    *)
    <<"IntervalsWithinValueRange", K(r) <= IdealK(r) + 1>>,
    <<"AtMostOne", \A j \in 1..N(r) : Cardinality(InSet(r.raw, j)) <= 1>>,
    <<"ExactlyOne", \A j \in 1..N(r) : Cov(r, j) => Cardinality(InSet(r.raw, j)) = 1>>,
    <<"Membership", \A j \in 1..N(r) : Cov(r, j) => InSet(r.raw, j) \subseteq Acc(r, j)>>,
    <<"MaxIncluded", r.kind = "number" /\ r.incmax =>
                       \A j \in 1..N(r) : r.data[j] = r.hi => InSet(r.raw, j) = {r.n}>>,
    <<"MaskAligned", r.kind = "points" => PointsAligned(r)>>,
    <<"ReferenceRule", r.onlat /\ RefsOk(r)>>,
    <<"BoundsValue", r.onlat /\ BoundsValueOk(r)>>,
    <<"ReferenceOnReportedEdge", r.refedge>>,     \* 'left' / 'right' references are bitwise the reported edges
    <<"BoundsContainMembers", r.contain>>,
    <<"BoundsDisjoint", r.disjoint>>,
    <<"DropExactlySmall", r.raised \/ (r.kept = KeptExpected(r) /\ r.keptrefs = Kept(r.refsq, r.raw, r.minpts))>>,
    <<"ErrorIffTooFew", r.raised <=> Len(KeptExpected(r)) < r.minint>>
  >>

Verdict(r) == Failing(Clauses(r))

Init == l = 1
Next == /\ l <= Len(TraceLog)
        /\ LET r == TraceLog[l] v == Verdict(r) IN
             IF v = <<>> THEN TRUE ELSE PrintT(<<"VERDICT", r.id, v>>)
        /\ l' = l + 1
Spec == Init /\ [][Next]_l
Consumed == l = Len(TraceLog) + 1 => PrintT(<<"CONSUMED", l - 1>>)
=============================================================================
