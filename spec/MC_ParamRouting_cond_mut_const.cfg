SPECIFICATION Spec
CONSTANTS Scen = "cond"  NGiven = 2  MutKind = "constscalar"  MutFam = "none"  MutName = "none"
CHECK_DEADLOCK FALSE
INVARIANT OneResultPerGiven
