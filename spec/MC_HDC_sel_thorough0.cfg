SPECIFICATION Spec
CONSTANTS S1 = 2 S2 = 3 S3 = 0  MaxV = 3  Start = "P"  Strict = FALSE  Cross = FALSE  Close = FALSE  LabelBoundary = FALSE  RankByArray = FALSE  Coarse = 1
CHECK_DEADLOCK FALSE
INVARIANT Content
INVARIANT Tight
INVARIANT Densest
INVARIANT DensityOrder
INVARIANT FmByDensity
INVARIANT Threshold
INVARIANT Sandwich
INVARIANT WarnIff
INVARIANT WarnAll
INVARIANT PrefixOfOrder
INVARIANT ErosionIsBoundary
INVARIANT CoordsAreBoundary
INVARIANT EachOnce
