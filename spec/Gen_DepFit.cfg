SPECIFICATION Spec
CONSTANTS MaxRound = 2  Mutation = "none"  EmitBeh = TRUE
CHECK_DEADLOCK FALSE
INVARIANT Emit
