SPECIFICATION Spec
CONSTANTS Objs = {1,2}  Ns = {3,5}  MaxLen = 3  Mut = "none"  EmitHist = TRUE
CHECK_DEADLOCK FALSE
INVARIANT Emit
