"""C12: ExponentiatedWeibullDistribution(f_delta=delta).fit(x) (MLE, default start; a fixed delta
is what the shipped OMAE2020 V-Hs model uses) ends at alpha ~ 1e-3 .. 1e-5, beta ~ 0.12 .. 0.2
with a log-likelihood hundreds of nats below that of the generating parameters for regular data
of median 0.12 .. 0.34; the same data times 10 is fitted correctly (not scale-equivariant)."""
import sys
import warnings
import numpy as np
import scipy.stats as sts
from virocon import ExponentiatedWeibullDistribution

warnings.simplefilter("ignore")


def loglik(x, alpha, beta, delta):  # independent oracle
    return float(np.sum(sts.exponweib.logpdf(x, delta, beta, scale=alpha)))


violations = 0
for alpha, beta, delta, n, seed in [(0.1, 1.0, 20.0, 100, 1), (0.1, 1.0, 20.0, 1000, 0), (0.1, 1.0, 20.0, 5000, 4),
                                    (0.05, 1.0, 10.0, 100, 0), (0.05, 1.2, 10.0, 100, 4), (0.05, 0.684, 7.79, 100, 1)]:
    rng = np.random.default_rng(seed)
    u = rng.uniform(size=n)
    x = alpha * (-np.log1p(-u ** (1 / delta))) ** (1 / beta)  # inverse cdf of the exponentiated Weibull
    d = ExponentiatedWeibullDistribution(f_delta=delta)
    ll_start = loglik(x, d.alpha, d.beta, d.delta)
    d.fit(x)
    ll_fit = loglik(x, d.alpha, d.beta, d.delta)
    ll_true = loglik(x, alpha, beta, delta)
    k = 10.0
    dk = ExponentiatedWeibullDistribution(f_delta=delta)
    dk.fit(k * x)
    print(
        f"true alpha={alpha} beta={beta} delta={delta} n={n} seed={seed} median(x)={np.median(x):.3f}\n"
        f"   fit(x)    alpha={d.alpha:.4g} beta={d.beta:.4g}  LL={ll_fit:.1f}  LL(true)={ll_true:.1f}  LL(start)={ll_start:.1f}\n"
        f"   fit(10 x) alpha={dk.alpha:.4g} beta={dk.beta:.4g}"
    )
    if ll_fit < ll_true - 1.0:
        print(f"   VIOLATION: fitted log-likelihood is {ll_true - ll_fit:.1f} below that of the generating parameters")
        violations += 1
    if abs(dk.beta - d.beta) > 0.2 * dk.beta:
        print("   VIOLATION: shape beta changes with the unit of the data")
        violations += 1
sys.exit(1 if violations else 0)
