"""Independent reference evaluators for C05: the DOCUMENTED formulas of every family, written
out as closed forms in mpmath (30 digits).  Nothing here imports or calls virocon, and no
scipy.stats distribution is used for a reference value.

Documented formulas (docstrings of virocon/distributions.py, literature cited there):
  Weibull(alpha, beta, gamma)     F = 1 - exp(-((x-gamma)/alpha)^beta),  x > gamma
  LogNormal(mu, sigma)            F = Phi((ln x - mu)/sigma),  x > 0
  Normal(mu, sigma)               F = Phi((x - mu)/sigma)
  ExpWeibull(alpha, beta, delta)  F = [1 - exp(-(x/alpha)^beta)]^delta,  x > 0
  GenGamma(m, c, lambda_)         F = P(m, (lambda_ x)^c) (Ochi 1992; regularised lower
                                  incomplete gamma), f = c lambda^(cm) x^(cm-1) exp(-(lambda x)^c)/Gamma(m)
  VonMises(kappa, mu)             f = exp(kappa cos(x-mu)) / (2 pi I0(kappa)) on [mu-pi, mu+pi],
                                  F = integral of f from mu-pi (Fourier series of that integral)
  NormFit(mu_norm, sigma_norm)    log-normal with mean mu_norm and standard deviation sigma_norm:
                                  sigma^2 = ln(1 + sigma_norm^2/mu_norm^2), mu = ln(mu_norm) - sigma^2/2
  Scipy gamma(a, loc, scale)      F = P(a, z), z = (x-loc)/scale
  Scipy rayleigh(loc, scale)      F = 1 - exp(-z^2/2)
  Scipy beta(a, b, loc, scale)    F = I_z(a, b), 0 <= z <= 1
"""
from __future__ import annotations

import math

import mpmath as mp

mp.mp.dps = 30
M = mp.mpf
INF = mp.inf


def _m(d):
    return {k: M(v) for k, v in d.items()}


def normfit_mu_sigma(mu_norm, sigma_norm):
    s2 = mp.log1p((sigma_norm / mu_norm) ** 2)
    return mp.log(mu_norm) - s2 / 2, mp.sqrt(s2)


def support(fam, par):
    """closed support [lo, hi] of the documented distribution, as mpf (may be +-inf)"""
    p = _m(par)
    if fam == "Weibull":
        return p["gamma"], INF
    if fam in ("LogNormal", "ExpWeibull", "GenGamma", "NormFit"):
        return M(0), INF
    if fam == "Normal":
        return -INF, INF
    if fam == "VonMises":
        return p["mu"] - mp.pi, p["mu"] + mp.pi
    if fam in ("ScipyGamma", "ScipyRayleigh"):
        return p["loc"], INF
    if fam == "ScipyBeta":
        return p["loc"], p["loc"] + p["scale"]
    raise KeyError(fam)


def _pow0(base, expo):
    """base^expo for base >= 0 with 0^0 = 1, 0^negative = +inf"""
    if base == 0:
        if expo == 0:
            return M(1)
        return INF if expo < 0 else M(0)
    return base ** expo


_VM_CACHE = {}


def _vm_ratios(kappa):
    """I_j(kappa)/I_0(kappa), j = 1.. until negligible"""
    key = mp.nstr(kappa, 40)
    if key not in _VM_CACHE:
        i0 = mp.besseli(0, kappa)
        out = []
        j = 1
        while True:
            r = mp.besseli(j, kappa) / i0
            out.append(r)
            if r < M(10) ** (-28) or j > 2000:
                break
            j += 1
        _VM_CACHE[key] = (i0, out)
    return _VM_CACHE[key]


def cdf(fam, par, x):
    """documented cdf at the float x (exactly converted), as mpf"""
    p = _m(par)
    x = M(x)
    lo, hi = support(fam, par)
    if x <= lo:
        return M(0)
    if x >= hi:
        return M(1)
    if fam == "Weibull":
        return -mp.expm1(-(((x - p["gamma"]) / p["alpha"]) ** p["beta"]))
    if fam == "LogNormal":
        return mp.ncdf((mp.log(x) - p["mu"]) / p["sigma"])
    if fam == "NormFit":
        mu, sg = normfit_mu_sigma(p["mu_norm"], p["sigma_norm"])
        return mp.ncdf((mp.log(x) - mu) / sg)
    if fam == "Normal":
        return mp.ncdf((x - p["mu"]) / p["sigma"])
    if fam == "ExpWeibull":
        return (-mp.expm1(-((x / p["alpha"]) ** p["beta"]))) ** p["delta"]
    if fam == "GenGamma":
        return mp.gammainc(p["m"], 0, (p["lambda_"] * x) ** p["c"], regularized=True)
    if fam == "VonMises":
        th = x - p["mu"]
        _, rat = _vm_ratios(p["kappa"])
        s = M(0)
        for j, r in enumerate(rat, start=1):
            s += r * mp.sin(j * th) / j
        return M(1) / 2 + th / (2 * mp.pi) + s / mp.pi
    if fam == "ScipyGamma":
        return mp.gammainc(p["a"], 0, (x - p["loc"]) / p["scale"], regularized=True)
    if fam == "ScipyRayleigh":
        z = (x - p["loc"]) / p["scale"]
        return -mp.expm1(-z * z / 2)
    if fam == "ScipyBeta":
        z = (x - p["loc"]) / p["scale"]
        return mp.betainc(p["a"], p["b"], 0, z, regularized=True)
    raise KeyError(fam)


def pdf(fam, par, x):
    """documented pdf at the float x, as mpf (may be +inf at a boundary)"""
    p = _m(par)
    x = M(x)
    lo, hi = support(fam, par)
    if x < lo or x > hi:
        return M(0)
    if fam == "Weibull":
        z = (x - p["gamma"]) / p["alpha"]
        return p["beta"] / p["alpha"] * _pow0(z, p["beta"] - 1) * mp.exp(-_pow0(z, p["beta"]))
    if fam in ("LogNormal", "NormFit"):
        if fam == "NormFit":
            mu, sg = normfit_mu_sigma(p["mu_norm"], p["sigma_norm"])
        else:
            mu, sg = p["mu"], p["sigma"]
        if x == 0:
            return M(0)
        return mp.exp(-((mp.log(x) - mu) ** 2) / (2 * sg * sg)) / (x * sg * mp.sqrt(2 * mp.pi))
    if fam == "Normal":
        return mp.npdf(x, p["mu"], p["sigma"])
    if fam == "ExpWeibull":
        if x == 0:
            # limit of delta*beta/alpha * t^(beta-1) * (1-e^-t^beta)^(delta-1): t^(beta*delta-1)
            e = p["beta"] * p["delta"] - 1
            return M(0) if e > 0 else (p["beta"] * p["delta"] / p["alpha"] if e == 0 else INF)
        t = (x / p["alpha"]) ** p["beta"]
        return (p["delta"] * p["beta"] / p["alpha"] * (x / p["alpha"]) ** (p["beta"] - 1)
                * (-mp.expm1(-t)) ** (p["delta"] - 1) * mp.exp(-t))
    if fam == "GenGamma":
        cm = p["c"] * p["m"]
        return (p["c"] * p["lambda_"] ** cm * _pow0(x, cm - 1)
                * mp.exp(-_pow0(p["lambda_"] * x, p["c"])) / mp.gamma(p["m"]))
    if fam == "VonMises":
        i0, _ = _vm_ratios(p["kappa"])
        return mp.exp(p["kappa"] * mp.cos(x - p["mu"])) / (2 * mp.pi * i0)
    if fam == "ScipyGamma":
        z = (x - p["loc"]) / p["scale"]
        return _pow0(z, p["a"] - 1) * mp.exp(-z) / (mp.gamma(p["a"]) * p["scale"])
    if fam == "ScipyRayleigh":
        z = (x - p["loc"]) / p["scale"]
        return z * mp.exp(-z * z / 2) / p["scale"]
    if fam == "ScipyBeta":
        z = (x - p["loc"]) / p["scale"]
        return (_pow0(z, p["a"] - 1) * _pow0(1 - z, p["b"] - 1)
                / (mp.beta(p["a"], p["b"]) * p["scale"]))
    raise KeyError(fam)


def pdf_at_zero_knife_edge(fam, par):
    """Exponentiated Weibull / generalised gamma at x = 0: the exponent of x in the documented pdf is
    e = beta*delta - 1 resp. c*m - 1.  If it is 0 in double arithmetic but not for the doubles taken as
    exact numbers (100 * 0.01 = 1 + 2e-17), the value for e = 0 is returned (else None): the
    boundary value is then not resolved by the parameters."""
    p = _m(par)
    if fam == "ExpWeibull":
        e = p["beta"] * p["delta"] - 1
        return p["beta"] * p["delta"] / p["alpha"] if e != 0 and abs(e) <= M("1e-15") else None
    if fam == "GenGamma":
        e = p["c"] * p["m"] - 1
        return p["c"] * p["lambda_"] / mp.gamma(p["m"]) if e != 0 and abs(e) <= M("1e-15") else None
    return None


def vonmises_cdf_by_quadrature(par, x):
    """cross-check of the Fourier form: tanh-sinh quadrature of the documented pdf"""
    p = _m(par)
    lo = p["mu"] - mp.pi
    pts = [lo, M(x)] if M(x) <= p["mu"] else [lo, p["mu"], M(x)]
    return mp.quad(lambda t: pdf("VonMises", par, t), pts)


# ---------------------------------------------------------------------------------------
# float-precision quantiles, used ONLY to place grid points (never as a reference value)


def approx_quantile(fam, par, prob):
    """double-precision quantile from scipy.special inverse functions / closed forms; it only
    decides WHERE the table has its grid points."""
    import numpy as np
    import scipy.special as sc

    q = float(prob)
    if fam == "Weibull":
        return par["gamma"] + par["alpha"] * (-math.log1p(-q)) ** (1.0 / par["beta"])
    if fam == "LogNormal":
        return math.exp(par["mu"] + par["sigma"] * float(sc.ndtri(q)))
    if fam == "NormFit":
        mu, sg = normfit_mu_sigma(M(par["mu_norm"]), M(par["sigma_norm"]))
        return math.exp(float(mu) + float(sg) * float(sc.ndtri(q)))
    if fam == "Normal":
        return par["mu"] + par["sigma"] * float(sc.ndtri(q))
    if fam == "ExpWeibull":
        # in log space: p^(1/delta) underflows for a small delta, its beta-th root does not
        lt = math.log(q) / par["delta"] if q > 0 else -math.inf
        lz = lt if lt < -36 else math.log(-math.log1p(-math.exp(lt))) if lt < 0 else math.inf
        return par["alpha"] * math.exp(lz / par["beta"])
    if fam == "GenGamma":
        # P(m, y) ~ y^m / Gamma(m + 1) for small y: ln y = (ln p + lgamma(m + 1)) / m
        ly = (math.log(q) + math.lgamma(par["m"] + 1.0)) / par["m"] if q > 0 else -math.inf
        if ly > -36:
            y = float(sc.gammaincinv(par["m"], q))
            ly = math.log(y) if y > 0 else ly
        return math.exp(ly / par["c"]) / par["lambda_"]
    if fam == "ScipyGamma":
        return par["loc"] + par["scale"] * float(sc.gammaincinv(par["a"], q))
    if fam == "ScipyRayleigh":
        return par["loc"] + par["scale"] * math.sqrt(-2.0 * math.log1p(-q))
    if fam == "ScipyBeta":
        return par["loc"] + par["scale"] * float(sc.betaincinv(par["a"], par["b"], q))
    if fam == "VonMises":
        kap, mu = par["kappa"], par["mu"]
        j = np.arange(1, 400)
        rat = sc.ive(j, kap) / sc.ive(0, kap)
        F = lambda th: 0.5 + th / (2 * math.pi) + float(np.sum(rat * np.sin(j * th) / j)) / math.pi
        a, b = -math.pi, math.pi
        for _ in range(80):
            m = 0.5 * (a + b)
            if F(m) < q:
                a = m
            else:
                b = m
        return mu + 0.5 * (a + b)
    raise KeyError(fam)
