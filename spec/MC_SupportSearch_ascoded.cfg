SPECIFICATION Spec
CONSTANTS KMax = 12  Peaks = {64, 512, 4096, 32768}  Thr = 8  Relative = FALSE  TailPermille = 10
CHECK_DEADLOCK FALSE
INVARIANT StopRule
INVARIANT NoTailTruncation
