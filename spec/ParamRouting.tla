----------------------------- MODULE ParamRouting -----------------------------
(* Life cycle of a distribution object with respect to its parameters, over opaque      *)
(* tokens (see ParamRoutingOps).  Three scenarios (constant Scen):                       *)
(*   "override" (C05)  NewDist -> CallExplicit                                           *)
(*   "cond"     (C08)  NewDist -> CondCall (x NGiven, consecutive conditioning values)   *)
(*   "fit"      (C11)  NewDist -> Eval -> FitDist -> FitDist (re-fit)                    *)
(* Init enumerates the complete product of the scenario; the same product is emitted     *)
(* as JSON cases (invariant Emit, Gen_*.cfg) and replayed on the real classes, and the   *)
(* trace specs assert that exactly this product was executed.                            *)
(*                                                                                      *)
(* The actions model what the code does; the constants MutKind/MutFam/MutName switch on  *)
(* one named deviation (the defect classes that were found in the pinned tree), used by  *)
(* the MC_ParamRouting_mut_*.cfg vacuity guards:                                         *)
(*   drop      the explicit value of (MutFam, MutName) is ignored by the evaluation      *)
(*   ctor      the constructor of MutFam ignores f_<name>                                *)
(*   fitkw     fitting MutFam with MutName fixed passes a bad keyword (TypeError)        *)
(*   overwrite fitting MutFam overwrites the fixed MutName with an estimate              *)
(*   stale     an inner dependence function is evaluated at the previous given           *)
(*   vecfirst  a vectorised call uses the first element's given for every element        *)
(*   inttrunc  an integer-typed explicit value of (MutFam, MutName) is mapped in integer    *)
(*             arithmetic (e.g. reciprocal of an int) and so differs from the instance's      *)
(*   bothornone  MutFam (two parameters) rejects a call that overrides exactly one of them  *)
(*   constscalar  a vector given with only constant parameter values yields ONE result      *)
(*   noneassigned  the constructor of MutFam stores an explicit f_<name> = None as the value  *)
(*   falsy     fitting MutFam treats a parameter fixed at a zero value as not fixed       *)
(*   wrap      fitting MutFam returns a fixed location reduced to the principal range     *)
EXTENDS ParamRoutingOps, TLC, Json

CONSTANTS Scen, NGiven, MutKind, MutFam, MutName
VARIABLES pc, c, par, used, outcome, round, k

vars == <<pc, c, par, used, outcome, round, k>>

Stored(n) == <<"stored", n>>
Explicit(n) == <<"explicit", n>>
Fixed(n) == <<"fixed", n>>
Est(n, r) == <<"est", n, r>>
Mut(f, n) == MutFam = f /\ MutName = n

Case(scen, f, E, m, ak, p, D, ch, sh, F, fm, d, sp, sn) ==
    [scen |-> scen, fam |-> f, E |-> E, meth |-> m, kind |-> ak, pass |-> p,
     D |-> D, chain |-> ch, shape |-> sh, F |-> F, fitm |-> fm, data |-> d,
     special |-> sp, sname |-> sn]

Init ==
    /\ pc = "new" /\ used = <<>> /\ outcome = "none" /\ round = 0 /\ k = 1
    /\ \E f \in Families \cup (IF Scen = "fit" THEN {"ScipyVonMises"} ELSE {}) :
         /\ par = [n \in Names(f) |-> <<"none", n>>]
         /\ \/ /\ Scen = "fit" /\ f = "ScipyVonMises"
               /\ \E vm \in VmSubCases :
                    c = Case("fit", f, {}, "cdf", "ndarray", "kw", {}, "plain", "ss", Range(vm[1]), "mle",
                             "own", vm[2], "loc")
            \/ /\ Scen = "fit" /\ f \in Families
               /\ \E n \in Names(f) :        \* f_n = None given explicitly: nothing fixed
                    c = Case("fit", f, {}, "cdf", "ndarray", "kw", {}, "plain", "ss", {}, "mle", "own", "none", n)
            \/ /\ Scen = "override"
               /\ \/ \E E \in SUBSET Names(f), m \in Methods, ak \in ArgKinds, p \in PassKinds :
                       c = Case("override", f, E, m, ak, p, {}, "plain", "ss", {}, "mle", "own", "regular", "none")
                  \/ \E ic \in IntOverrideCasesOf(f) :      \* integer-typed explicit values (special = kind)
                       c = Case("override", f, Range(ic[2]), ic[3], "ndarray", ic[5], {}, "plain", "ss", {},
                                "mle", "own", ic[4], "none")
            \/ /\ Scen = "cond"
               /\ \E D \in Partitions(f), ch \in Chains, sh \in Shapes, m \in Methods :
                    c = Case("cond", f, {}, m, "ndarray", "kw", D, ch, sh, Names(f) \ D, "mle", "own", "regular", "none")
            \/ /\ Scen = "fit" /\ f \in Families
               /\ \/ \E F \in FixSets(f), fm \in FitMethods, d \in DataKinds :
                       c = Case("fit", f, {}, "cdf", "ndarray", "kw", {}, "plain", "ss", F, fm, d,
                                "regular", "none")
                  \/ \E sc \in SpecialFitCasesOf(f) :
                       c = Case("fit", f, {}, "cdf", "ndarray", "kw", {}, "plain", "ss", {sc[2]}, "mle",
                                "own", sc[3], sc[2])

(* constructor: value = f_value if given *)
NewDist ==
    /\ pc = "new"
    /\ par' = [n \in Names(c.fam) |->
                 IF MutKind = "noneassigned" /\ MutFam = c.fam /\ c.special = "none" /\ n = c.sname
                 THEN <<"None", n>>
                 ELSE IF n \in c.F /\ ~(MutKind = "ctor" /\ MutFam = c.fam) THEN Fixed(n) ELSE Stored(n)]
    /\ pc' = "built"
    /\ UNCHANGED <<c, used, outcome, round, k>>

(* Dist(S).method(x, E): _get_scipy_parameters takes the explicit value, else self.name *)
CallExplicit ==
    /\ pc = "built" /\ c.scen = "override"
    /\ LET oc == IF MutKind = "bothornone" /\ c.fam = MutFam /\ Cardinality(c.E) = 1
                 THEN "RuntimeError" ELSE "ok" IN
         /\ outcome' = oc
         /\ used' = IF oc = "ok"
                    THEN << [n \in Names(c.fam) |->
                               IF n \in c.E /\ MutKind = "inttrunc" /\ Mut(c.fam, n) /\ c.special \in IntKinds
                               THEN <<"truncated", n>>
                               ELSE IF n \in c.E /\ ~(MutKind = "drop" /\ Mut(c.fam, n))
                                    THEN Explicit(n) ELSE par[n]] >>
                    ELSE <<>>
    /\ pc' = "done"
    /\ UNCHANGED <<c, par, round, k>>

(* the conditioning value(s) of call j: scalar j, or the vector <<j, j + 10>> *)
GivenOf(j) == IF GivenIsVector(c.shape) THEN <<j, j + 10>> ELSE <<j>>

(* ConditionalDistribution.method(x, given): every parameter is passed explicitly to the *)
(* template: dependence function value at given, or the fixed value; used[j][i] is the    *)
(* parameter vector that element i of call j is evaluated with                            *)
CondCall ==
    /\ pc = "built" /\ c.scen = "cond" /\ k <= NGiven
    /\ LET gv == GivenOf(k)
           SeenBy(i, lev) ==
               IF c.chain = "const" THEN 0
               ELSE IF lev > 1 /\ MutKind = "stale" /\ k > 1 THEN gv[i] - 1
               ELSE IF MutKind = "vecfirst" THEN gv[1] ELSE gv[i]
           (* one element per conditioning value; "constscalar": when every parameter value is  *)
           (* constant in given (const chain) the code produces ONE element for a vector given  *)
           NEl == IF MutKind = "constscalar" /\ c.chain = "const" THEN 1 ELSE Len(gv)
           Val(n, i) ==
               IF n \in c.D
               THEN IF MutKind = "drop" /\ Mut(c.fam, n) THEN Stored(n)
                    ELSE ApplyTok(n, [lev \in 1..(DepthOf(c.fam, c.D, c.chain, n) + 1) |-> SeenBy(i, lev)])
               ELSE par[n]
       IN used' = Append(used, [i \in 1..NEl |-> [n \in Names(c.fam) |-> Val(n, i)]])
    /\ k' = k + 1
    /\ pc' = IF k = NGiven THEN "done" ELSE "built"
    /\ UNCHANGED <<c, par, outcome, round>>

(* evaluation reads the stored parameters and leaves them unchanged *)
Eval ==
    /\ pc = "built" /\ c.scen = "fit"
    /\ used' = <<par>>
    /\ pc' = "evald"
    /\ UNCHANGED <<c, par, outcome, round, k>>

(* fit(data, method): fixed names keep their value, free names get a new estimate *)
FitDist ==
    /\ pc \in {"evald", "fitted"} /\ c.scen = "fit"
    /\ IF ~Supports(c.fam, c.fitm, c.F)
       THEN outcome' = "NotImplementedError" /\ par' = par
       ELSE IF MutKind = "fitkw" /\ MutFam = c.fam /\ MutName \in c.F
            THEN outcome' = "TypeError" /\ par' = par
            ELSE /\ outcome' = "ok"
                 /\ par' = [n \in Names(c.fam) |->
                              IF n \in c.F /\ MutKind = "wrap" /\ MutFam = c.fam /\ c.special = "wrap"
                              THEN <<"wrapped", n>>
                              ELSE IF /\ n \in c.F
                                      /\ ~(MutKind = "overwrite" /\ Mut(c.fam, n))
                                      /\ ~(MutKind = "falsy" /\ MutFam = c.fam /\ c.special \in ZeroKinds)
                                   THEN par[n] ELSE Est(n, round + 1)]
    /\ round' = round + 1
    /\ pc' = IF pc = "evald" THEN "fitted" ELSE "done"
    /\ UNCHANGED <<c, used, k>>

Next == NewDist \/ CallExplicit \/ CondCall \/ Eval \/ FitDist
Spec == Init /\ [][Next]_vars

----------------------------------------------------------------------------
(* C05 *)
OverrideEqualsInstance ==
    pc = "done" /\ c.scen = "override" /\ outcome = "ok" =>
      used[1] = ResolveAll(c.fam, [n \in Names(c.fam) |-> Stored(n)], [n \in c.E |-> Explicit(n)])
OverrideOutcomeAsSpecified ==
    pc = "done" /\ c.scen = "override" => outcome = OverrideOutcome(c.fam, c.E)

(* C08 *)
FixedTok == [n \in Names(c.fam) |-> Fixed(n)]
CondEqualsTemplateAtValues ==
    c.scen = "cond" =>
      \A j \in 1..Len(used) : \A i \in 1..Len(used[j]) :
         used[j][i] = CondResolve(c.fam, c.D, c.chain, FixedTok, GivenOf(j)[i])
VectorisedEqualsPointwise ==
    c.scen = "cond" =>
      \A j \in 1..Len(used) : \A i \in 1..Len(used[j]) : \A n \in c.D :
         used[j][i][n][1] = "dep" => used[j][i][n][3] = Seen(c.chain, GivenOf(j)[i])
(* one result element (sample row) per conditioning value, also when no parameter varies *)
OneResultPerGiven == c.scen = "cond" => \A j \in 1..Len(used) : Len(used[j]) = Len(GivenOf(j))
ChainedSameGiven ==
    c.scen = "cond" =>
      \A j \in 1..Len(used) : \A i \in 1..Len(used[j]) : \A n \in c.D :
         used[j][i][n][1] = "dep" => GivensIn(used[j][i][n]) = {Seen(c.chain, GivenOf(j)[i])}
(* C11, conditional part *)
FixedSameForAllGiven ==
    c.scen = "cond" =>
      \A j \in 1..Len(used) : \A i \in 1..Len(used[j]) : \A n \in c.F : used[j][i][n] = Fixed(n)

(* C11 *)
FixedHonoured == c.scen = "fit" /\ pc # "new" => \A n \in c.F : par[n] = Fixed(n)
EvalUsesPar ==
    c.scen = "fit" /\ pc \in {"evald", "fitted", "done"} =>
      used[1] = [n \in Names(c.fam) |-> IF n \in c.F THEN Fixed(n) ELSE Stored(n)]
FitOutcomeAsSpecified ==
    c.scen = "fit" /\ round > 0 => outcome = FitOutcome(c.fam, c.fitm, c.F)
FreeEstimated ==
    c.scen = "fit" /\ round > 0 /\ outcome = "ok" => \A n \in Names(c.fam) \ c.F : par[n] = Est(n, round)
FixedStable == [][pc # "new" => \A n \in c.F : par'[n] = par[n]]_vars

----------------------------------------------------------------------------
(* leg R: every initial state is one case *)
CaseJson ==
    [scen |-> c.scen, fam |-> c.fam, E |-> AsSeq(c.fam, c.E), method |-> c.meth,
     argkind |-> c.kind, pass |-> c.pass, D |-> AsSeq(c.fam, c.D), chain |-> c.chain,
     shape |-> c.shape, F |-> AsSeq(c.fam, c.F), fitm |-> c.fitm, data |-> c.data,
     special |-> c.special, sname |-> c.sname, names |-> NamesSeq(c.fam)]
Emit == pc = "new" => PrintT(<<"BEH", ToJson(CaseJson)>>)

=============================================================================
