----------------------------- MODULE Transformed -----------------------------
(* Random-number threading of an IFORM computation on a TransformedModel (C16,           *)
(* "reproduced exactly when the model's random_state is set").                          *)
(*                                                                                      *)
(* One computation = one Monte-Carlo marginal quantile for the first variable followed    *)
(* by NPts Monte-Carlo conditional quantiles.  Every stochastic sub-call consumes Need    *)
(* numbers from a stream: with random_state = seed s every sub-call opens a fresh         *)
(* generator default_rng(s) (stream <<"seed", s>>, from position 0); with None it draws   *)
(* from the global stream, which advances.  The identity of a result is the sequence of   *)
(* <<stream, first position>> pairs it consumed.  ThreadMarginal = FALSE is the deviation  *)
(* "the marginal quantile always draws from the global stream" (defect D14, repaired).     *)
EXTENDS Integers, Sequences, TLC

CONSTANTS NPts, Need, ThreadMarginal,
          CacheFeedsMarginal   \* deviation: once the lazy sample cache is filled (from the global stream),
                               \* the marginal quantile is read from it instead of a seeded draw

RandomStates == {"none", "seedA", "seedB"}
VARIABLES glob, rsof, res, n, cache
vars == <<glob, rsof, res, n, cache>>

Init == glob = 0 /\ rsof = <<>> /\ res = <<>> /\ n = 0 /\ cache = <<>>

(* empirical_cdf / .sample fill the model's lazy sample cache from the global stream *)
FillCache == /\ cache = <<>> /\ cache' = <<"global", glob>> /\ glob' = glob + Need
             /\ UNCHANGED <<rsof, res, n>>

Draw(rs, g) == IF rs = "none" THEN <<"global", g>> ELSE <<rs, 0>>
Adv(rs, g) == IF rs = "none" THEN g + Need ELSE g

RECURSIVE Cond(_, _, _)
Cond(rs, g, i) == IF i > NPts THEN [draws |-> <<>>, g |-> g]
                  ELSE LET r == Cond(rs, Adv(rs, g), i + 1) IN [draws |-> <<Draw(rs, g)>> \o r.draws, g |-> r.g]

Compute(rs) ==
    /\ n < 3
    /\ LET mrs == IF ThreadMarginal THEN rs ELSE "none"
           fromcache == CacheFeedsMarginal /\ cache # <<>>
           m == IF fromcache THEN cache ELSE Draw(mrs, glob)
           g1 == IF fromcache THEN glob ELSE Adv(mrs, glob)
           c == Cond(rs, g1, 1)
       IN /\ res' = Append(res, <<m>> \o c.draws)
          /\ glob' = c.g
    /\ rsof' = Append(rsof, rs)
    /\ n' = n + 1
    /\ UNCHANGED cache

Next == FillCache \/ \E rs \in RandomStates : Compute(rs)
Spec == Init /\ [][Next]_vars

Reproducible == \A i, j \in 1..Len(res) : rsof[i] = rsof[j] /\ rsof[i] # "none" => res[i] = res[j]
UnseededDiffer == \A i, j \in 1..Len(res) : i # j /\ rsof[i] = "none" /\ rsof[j] = "none" => res[i] # res[j]
SeedsDiffer == \A i, j \in 1..Len(res) : rsof[i] # rsof[j] => res[i] # res[j]
=============================================================================
