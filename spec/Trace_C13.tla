----------------------------- MODULE Trace_C13 -----------------------------
(* Trace validation for C13.  Three kinds of records, all measured on the real           *)
(* ExponentiatedWeibullDistribution.fit(method='lsq'|'wlsq'):                             *)
(*  "table":    (method, weights kind, fixed set) -> observed outcome (exception class or *)
(*              fit-fixed-delta / fit-free-delta), judged against Outcomes;               *)
(*  "discrete": a small integer vector d with weights w; rx/rpn/rw = the sorted data, the *)
(*              plotting positions x 2n and the weights (x the normalising sum for        *)
(*              keywords) that _fit_lsq handed to the regression, judged against Ranked;  *)
(*  "law":      a real-valued sample; measured deviations (see EwLsqOps (iii)) from the   *)
(*              independent weighted regression (numpy.linalg.lstsq on sqrt(w)-scaled     *)
(*              rows) and between metamorphic variants of the same fit.                   *)
EXTENDS EwLsqOps, Json, IOUtils, TLC

TraceLog == ndJsonDeserialize(IOEnv.TRACE_FILE)
VARIABLE l

SetOf(s) == {s[i] : i \in 1..Len(s)}

(* ---- discrete ---- *)
Exp(r) == Ranked(r.d, r.w, r.wk, TRUE, "mid", TRUE)
DiscreteClauses(r) ==
  IF r.exc # "" THEN << <<"UnexpectedException", FALSE>> >>
  ELSE IF ~r.onlat \/ Len(r.rx) # Len(r.d) \/ Len(r.rpn) # Len(r.d) \/ Len(r.rw) # Len(r.d)
       THEN << <<"PipelineShape", FALSE>> >>
  ELSE LET e == Exp(r) n == Len(r.d) IN <<
    <<"SortedStable", \A i \in 1..n : r.rx[i] = e[i].x>>,
    <<"PlottingPositions", \A i \in 1..n : r.rpn[i] = e[i].pn>>,          \* x 2n: 2i-1
    <<"ZerosRankedThenIgnored", \A i \in 1..n : r.rpn[i] = 2 * i - 1>>,    \* zeros still ranked
    <<"WeightsCoSorted", \A i \in 1..n : r.rw[i] = e[i].w>>,           \* rw = weight x normalising sum
    \* keyword and array weights reach the regression normalised to sum 1 (None = ones, as they are)
    <<"WeightsNormalised", r.wk # "none" => Abs(r.wsumq - 1000000000) <= 10>>
  >>

(* ---- law ---- *)
VarOk(r, v) == /\ Small(v.g)
               /\ IF r.fixed THEN Small(v.ab) /\ v.dd = 0 ELSE DeltaClose(v.dd, r.dq) /\ AbClose(v.abl, r.dq)
Law(r, tag) == \A i \in 1..Len(r.variants) : r.variants[i].name = tag => VarOk(r, r.variants[i])
LawClauses(r) ==
  IF r.exc # "" THEN << <<"UnexpectedException", FALSE>> >>
  ELSE <<
    <<"NormalEquations", r.pos /\ Small(r.g) /\ Small(r.ab) /\ (r.fixed => r.dfix = 0)>>,
    <<"LawCoverage", r.pos => RequiredVariants(r.wk, r.haszeros, r.isint) \subseteq
                        {r.variants[i].name : i \in 1..Len(r.variants)}>>,
    <<"WeightScaleInvariant", Law(r, "scaled")>>,
    <<"KeywordEqualsArray", Law(r, "kwarray")>>,
    <<"NoneEqualsOnes", Law(r, "ones")>>,
    <<"ZeroIgnored", Law(r, "zeroweights")>>,
    <<"OrderInvariant", Law(r, "perm")>>,                 \* all weights, ties included
    <<"IntegerSameAsFloat", Law(r, "intdtype")>>,         \* int32 / int64 samples = the same numbers as floats
    \* exact bit patterns (22-bit limbs) of (alpha, beta, delta): bits0 = the fit as the first fit of a fresh
    \* process, bitsH = in a fresh process directly after a fixed-delta fit of ANOTHER instance on an equally
    \* long sample, bitsA = in the run's sequence of fits, bitsB = repeated later in another order.
    \* A fit is a function of (instance, data, weights): identical bit for bit.
    <<"CaseOrderIndependent", r.bits0 = r.bitsA /\ r.bitsA = r.bitsB>>,
    <<"EarlierFitDoesNotLeak", r.bits0 = r.bitsH>>,
    \* r.hist: the same fit as the LAST fit of one object with a past (f_delta set / changed after an earlier
    \* fit, delta attribute overwritten, deep copy): the delta in force is f_delta, whatever the object holds
    <<"FreeDeltaHistory",
        ~r.fixed /\ Interior(r.dq) =>
            /\ (r.n <= 200 => r.hfull)          \* hfull: the huge-start histories were run (quick: n <= 200)
            /\ (FreeHistories \ (IF r.hfull THEN {} ELSE {"after_runaway_fit"}))
                  \subseteq {r.fhist[i].name : i \in 1..Len(r.fhist)}
            /\ (r.hfull => \E i \in 1..Len(r.fhist) : r.fhist[i].name \in HugeConstructed)
            /\ \A i \in 1..Len(r.fhist) :
                 LET v == r.fhist[i] IN
                   /\ Small(v.g) /\ DeltaClose(v.dd, r.dq) /\ AbClose(v.abl, r.dq)
                   /\ LocalMinD(v.em, v.ep, v.emdef, v.epdef, v.dq)>>,
    <<"ObjectHistoryIndependent",
        r.fixed => /\ ObjectHistories \subseteq {r.hist[i].name : i \in 1..Len(r.hist)}
                   /\ \A i \in 1..Len(r.hist) : r.hist[i].bits = r.bitsA>>,
    <<"DeltaLocalMin", ~r.fixed => StepOk(r.hq, r.dq) /\ LocalMinD(r.em, r.ep, r.emdef, r.epdef, r.dq)>>
  >>

TableClauses(r) ==
  << <<"OutcomeTable", r.outcome \in Outcomes(r.method, r.wk, SetOf(r.fixedset))>> >>

(* ---- zeropair: two consecutive fits, same delta in force, same number of non-zero observations, different
   numbers of zeros.  g1/ab1 and g/ab = normal equations and deviation from the reference regression of the
   first and the second fit; bitsS / bits0 = the second fit in this sequence / alone in a fresh process ---- *)
ZeroPairClauses(r) ==
  IF r.exc # "" THEN << <<"UnexpectedException", FALSE>> >>
  ELSE <<
    <<"NormalEquations", r.pos /\ Small(r.g1) /\ Small(r.ab1) /\ Small(r.g) /\ Small(r.ab)>>,
    <<"CaseOrderIndependent", r.bits0 = r.bitsS>>
  >>

(* ---- dominant: one dominating weight; ab = deviation of (alpha, beta) from the EXACT rational solution
   of the weighted normal equations on the same float coordinates ---- *)
DominantClauses(r) ==
  IF r.exc # "" THEN << <<"UnexpectedException", FALSE>> >>
  ELSE << <<"NormalEquations", r.pos /\ Small(r.ab)>> >>

Clauses(r) == CASE r.kind = "table" -> TableClauses(r)
                [] r.kind = "dominant" -> DominantClauses(r)
                [] r.kind = "zeropair" -> ZeroPairClauses(r)
                [] r.kind = "discrete" -> DiscreteClauses(r)
                [] r.kind = "law" -> LawClauses(r)

Verdict(r) == Failing(Clauses(r))

Init == l = 1
Next == /\ l <= Len(TraceLog)
        /\ LET r == TraceLog[l] v == Verdict(r) IN
             IF v = <<>> THEN TRUE ELSE PrintT(<<"VERDICT", r.id, v>>)
        /\ l' = l + 1
Spec == Init /\ [][Next]_l
Consumed == l = Len(TraceLog) + 1 => PrintT(<<"CONSUMED", l - 1>>)
=============================================================================
