------------------------- MODULE ParamRoutingAttrOps -------------------------
(* Histories of ONE distribution object whose parameter attributes are assigned directly    *)
(* (dist.alpha = ..., dist.mu_norm = ..., dist.kappa = ...) between evaluations, as a closed  *)
(* set shared by ParamRoutingAttr.tla and Trace_C05 (coverage is asserted by TLC).            *)
(*   "E"        evaluate pdf / cdf / icdf / seeded draw_sample WITHOUT explicit parameters     *)
(*   "A<k>"     assign a new value to the attribute of the k-th parameter name                 *)
(*   "F"        fit the object (MLE) to data: every parameter gets a new value                 *)
EXTENDS ParamRoutingOps

AttrStep(k) == CASE k = 1 -> "A1" [] k = 2 -> "A2" [] k = 3 -> "A3" [] k = 4 -> "A4"
AttrAlphabet(fam, withfit) ==
    {"E"} \cup {AttrStep(k) : k \in 1..Len(NamesSeq(fam))} \cup (IF withfit THEN {"F"} ELSE {})
(* every sequence of 1..maxlen steps that ends with an evaluation *)
AttrHistories(fam, maxlen, withfit) ==
    UNION {{s \in [1..n -> AttrAlphabet(fam, withfit)] : s[n] = "E"} : n \in 1..maxlen}
AttrHistoryCases(maxlen, withfit) ==
    UNION {{<<fam, s>> : s \in AttrHistories(fam, maxlen, withfit)} : fam \in Families}
AttrIndex(st) == CASE st = "A1" -> 1 [] st = "A2" -> 2 [] st = "A3" -> 3 [] st = "A4" -> 4 [] OTHER -> 0
=============================================================================
