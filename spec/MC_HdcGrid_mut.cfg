SPECIFICATION Spec
CONSTANTS NDims = {2}  EmitCases = FALSE  NegativeDefault = TRUE
CHECK_DEADLOCK FALSE
INVARIANT DeltasPositive
