SPECIFICATION Spec
CONSTANTS Scen = "override"  NGiven = 2  MutKind = "drop"  MutFam = "Normal"  MutName = "sigma"
CHECK_DEADLOCK FALSE
INVARIANT OverrideEqualsInstance
INVARIANT OverrideOutcomeAsSpecified
