"""C09 - joint fitting is order-invariant and fits each interval to exactly its own data.

M: TLC explores spec/JointFit.tla (Slice -> DropSmall -> FitIntervals -> FitDependence over
   abstract rows, all row orders, all structures, all small value vectors); the deviation
   "masks in sorted space" must violate.
V: real GlobalHierarchicalModel fits (2-D / 3-D structures, three slicers, MLE and WLSQ) are
   observed through recording wrappers around IntervalSlicer.slice_, Distribution.fit and
   DependenceFunction.fit, projected to the lattice of SlicingOps and judged by
   spec/Trace_C09.tla: interval membership, stand-alone equality, dependence-fit inputs,
   per-dimension options, permutation invariance, re-fit.  Independent references (never virocon's own
   code): the closed-form double-precision MLE of the normal / log-normal family from the float64 copy of
   exactly the interval's observations (the data matrix is also given as float32 / int64 / int16 / uint8 /
   int8 / float16 with values that every one of these types holds exactly), and the closed-form
   (weighted) least-squares solution sum(w_i r_i^2) -> min of every linear-in-parameters dependence
   function for the recorded (interval reference value, estimate) pairs (weights callable with and
   without bounds).
"""
import copy
import warnings
from decimal import Decimal

import numpy as np

from .common import Q, Qc, Machinery, import_virocon

LEVEL = "model_checking"


# --------------------------------------------------------------------------- structures


def _lin2(x, a, b):
    return a + b * x


def _quad3(x, a, b, c):
    return a + b * x + c * x**2


# linear-in-parameters shapes: name -> (func, columns of the design matrix)
LINEAR_SHAPES = {
    "lin2": (_lin2, lambda x: np.column_stack([np.ones_like(x), x])),
    "quad3": (_quad3, lambda x: np.column_stack([np.ones_like(x), x, x**2])),
}
# weights callables of DependenceFunction(weights=...): (x, y) -> one positive weight per pair
DEP_WEIGHTS = {
    "wx": lambda x, y: 0.2 + x**2,            # the intervals of high conditioning values count more
    "wy": lambda x, y: 0.1 + np.abs(y),       # "lambda x, y: y" of the docstring, kept positive
}
# bounds that the least-squares solution of the generating laws of gen_data does not touch (an upper bound 0 is falsy)
DEP_BOUNDS = {
    "bpos": [(0, None), (0, None)],
    "bneg": [(0, None), (None, 0)],
    "bfree3": [(None, None), (None, None), (None, None)],
}


def parse_dep(f):
    """'shape[/weights[/bounds]]' -> (shape, weights kind or None, bounds kind or None); linear shapes only"""
    parts = (f.split("/") + ["", ""])[:3]
    if parts[0] not in LINEAR_SHAPES:
        return None
    return parts[0], (parts[1] or None), (parts[2] or None)


def dep_funcs(vc):
    def power3(x, a, b, c):
        return a + b * x**c

    def exp3(x, a=0.1, b=0.2, c=-0.3):
        return a + b * np.exp(c * x)

    def chain2(x, a, b, d_of_x):
        # a dependence function that takes ANOTHER one as parameter (as alpha(beta) of the OMAE2020 V-Hs model)
        return (a + b * x) / 1.5 ** (1.0 / d_of_x(x))

    B3 = [(0, None), (0, None), (None, None)]
    DF = vc.DependenceFunction
    return dict(power3=lambda: DF(power3, B3), exp3=lambda: DF(exp3, B3),
                chain2=lambda inner: DF(chain2, [(0, None), (0, None)], d_of_x=inner))


def make_dep(vc, D, f):
    """fresh DependenceFunction of the dependence spec f (a key of dep_funcs or 'shape[/weights[/bounds]]')"""
    lin = parse_dep(f)
    if lin is None:
        return D[f]()
    shape, wk, bk = lin
    kw = {}
    if wk is not None:
        kw["weights"] = DEP_WEIGHTS[wk]
    if bk is not None:
        kw["bounds"] = copy.deepcopy(DEP_BOUNDS[bk])
    return vc.DependenceFunction(LINEAR_SHAPES[shape][0], **kw)


def linear_reference(f, x, y):
    """closed-form solution of sum(w_i * (f(x_i) - y_i)**2) -> min for a linear-in-parameters dependence spec f and
    the pairs (x, y), w = weights(x, y) (1 without weights): numpy lstsq on the sqrt(w)-scaled rows.  None when the
    spec is not linear, the pairs do not determine the parameters, or the solution is not strictly inside the bounds
    (then the bounded optimum is another point and nothing is judged)."""
    lin = parse_dep(f)
    if lin is None:
        return None
    shape, wk, bk = lin
    x = np.asarray(x, dtype=np.float64)
    y = np.asarray(y, dtype=np.float64)
    if not (np.all(np.isfinite(x)) and np.all(np.isfinite(y))):
        return None
    A = LINEAR_SHAPES[shape][1](x)
    if len(x) < A.shape[1] or len(np.unique(x)) < A.shape[1]:
        return None
    w = np.ones_like(x) if wk is None else np.asarray(DEP_WEIGHTS[wk](x, y), dtype=np.float64)
    sw = np.sqrt(w)
    sol, _, rank, _ = np.linalg.lstsq(A * sw[:, None], y * sw, rcond=None)
    if rank < A.shape[1]:
        return None
    if bk is not None:
        for v, (lo, hi) in zip(sol, DEP_BOUNDS[bk]):
            m = 1e-3 * (abs(v) + 1e-3)
            if (lo is not None and v < lo + m) or (hi is not None and v > hi - m):
                return None
    return sol


def closed_form_mle(fam, obs):
    """maximum-likelihood (mu, sigma) of the normal / log-normal family in double precision: mean and root mean
    square deviation of the (logarithms of the) observations"""
    z = np.asarray(obs, dtype=np.float64)
    if fam == "lognormal":
        z = np.log(z)
    mu = float(np.mean(z))
    return [mu, float(np.sqrt(np.mean((z - mu) ** 2)))]


def _vrange(spec):
    """value_range given in lattice units (spec['vr'] = (lo_k, hi_k)) of unit spec['vru'] -> floats or None"""
    if spec.get("vr") is None:
        return None
    return tuple(float(Decimal(int(k)) * Decimal(spec["vru"])) for k in spec["vr"])


def slicer_of(vc, spec):
    kind = spec["kind"]
    ref = spec.get("ref", "center")
    if ref == "median":
        ref = np.median
    if kind == "width":
        return vc.WidthOfIntervalSlicer(float(Decimal(spec["w"])), reference=ref, value_range=_vrange(spec),
                                        right_open=spec.get("ropen", True), min_n_points=spec["minpts"])
    if kind == "number":
        return vc.NumberOfIntervalsSlicer(spec["n"], reference=ref, value_range=_vrange(spec),
                                          include_max=spec.get("incmax", True), min_n_points=spec["minpts"])
    return vc.PointsPerIntervalSlicer(spec["n"], last_full=spec.get("lastfull", True), min_n_points=spec["minpts"])


def build_model(vc, st):
    """st: structure dict -> fresh GlobalHierarchicalModel"""
    D = dep_funcs(vc)
    descs = []
    for d in st["dims"]:
        fam = d["fam"]
        if fam == "weibull":
            dist = vc.WeibullDistribution(**d.get("kw", {}))
        elif fam == "lognormal":
            dist = vc.LogNormalDistribution()
        elif fam == "expweibull":
            dist = vc.ExponentiatedWeibullDistribution(**d.get("kw", {}))
        elif fam == "normal":
            dist = vc.NormalDistribution()
        desc = {"distribution": dist}
        if "slicer" in d:
            desc["intervals"] = slicer_of(vc, d["slicer"])
        if d.get("cond") is not None:
            desc["conditional_on"] = d["cond"]
            # "chain:<q>": the function of this parameter takes the function of parameter q as its parameter; the
            # dict keeps the declared order (a dependent may be declared, and hence fitted, BEFORE its conditioner)
            plain = {p: make_dep(vc, D, f) for p, f in d["deps"].items() if not f.startswith("chain:")}
            desc["parameters"] = {p: (plain[p] if p in plain else D["chain2"](plain[f.split(":")[1]])) for p, f in d["deps"].items()}
        descs.append(desc)
    return vc.GlobalHierarchicalModel(descs)


def structures(rng):
    """A list of structure dicts; lattice unit (decimal string) per conditioning column."""
    W = lambda w, mp, **k: dict(kind="width", w=w, minpts=mp, **k)  # noqa
    Nn = lambda n, mp, **k: dict(kind="number", n=n, minpts=mp, **k)  # noqa
    P = lambda n, mp, **k: dict(kind="points", n=n, minpts=mp, **k)  # noqa
    ln = dict(fam="lognormal", deps={"mu": "power3", "sigma": "exp3"})
    wb2 = dict(fam="weibull", kw={"f_gamma": 0}, deps={"alpha": "power3", "beta": "lin2"})
    ew2 = dict(fam="expweibull", kw={"f_delta": 3}, deps={"alpha": "power3", "beta": "lin2"})
    nrm = dict(fam="normal", deps={"mu": "lin2", "sigma": "lin2"})
    ewc = dict(fam="expweibull", kw={"f_delta": 3}, deps={"alpha": "chain:beta", "beta": "lin2"})
    # dependence functions with a weights callable, declared without and with bounds (shape/weights/bounds)
    nrm_w = dict(fam="normal", deps={"mu": "lin2/wx", "sigma": "lin2/wy"})
    nrm_wb = dict(fam="normal", deps={"mu": "lin2/wx/bpos", "sigma": "lin2/wy/bneg"})
    ln_w = dict(fam="lognormal", deps={"mu": "lin2/wx", "sigma": "lin2/wy"})
    ln_q = dict(fam="lognormal", deps={"mu": "quad3/wy", "sigma": "quad3/wx/bfree3"})
    out = [
        dict(name="weibull|lognormal width0.5", units=["0.1", None],
             dims=[dict(fam="weibull", slicer=W("0.5", 30)), dict(ln, cond=0)], fitdesc=None),
        dict(name="weibull|lognormal width0.3 left-open right-ref", units=["0.1", None],
             dims=[dict(fam="weibull", slicer=W("0.3", 20, ropen=False, ref="right")), dict(ln, cond=0)],
             fitdesc=[{"method": "mle"}, None]),
        dict(name="expweibull(wlsq)|lognormal number10", units=["0.1", None],
             dims=[dict(fam="expweibull", slicer=Nn(10, 25)), dict(ln, cond=0)],
             fitdesc=[{"method": "wlsq", "weights": "quadratic"}, None]),
        dict(name="weibull|expweibull(wlsq) number7 nomax median", units=["0.25", None],
             dims=[dict(fam="weibull", slicer=Nn(7, 20, incmax=False, ref="median")), dict(ew2, cond=0)],
             fitdesc=[None, {"method": "wlsq", "weights": "linear"}]),
        dict(name="weibull|lognormal number8 value_range inside data", units=["0.1", None],
             dims=[dict(fam="weibull", slicer=Nn(8, 15, vr=(8, 40), vru="0.1")), dict(ln, cond=0)], fitdesc=None),
        dict(name="weibull|lognormal width0.5 value_range inside data", units=["0.1", None],
             dims=[dict(fam="weibull", slicer=W("0.5", 15, vr=(10, 35), vru="0.1")), dict(ln, cond=0)], fitdesc=None),
        dict(name="weibull|lognormal width0.2 edges", units=["0.1", None],
             dims=[dict(fam="weibull", slicer=W("0.2", 10)), dict(ln, cond=0)], fitdesc=None),
        dict(name="weibull|normal points untied", units=["0.001", None], untied=True,
             dims=[dict(fam="weibull", slicer=P(int(rng.integers(60, 140)), 40)), dict(nrm, cond=0)], fitdesc=None),
        dict(name="weibull|normal points tied", units=["0.1", None],
             dims=[dict(fam="weibull", slicer=P(int(rng.integers(60, 140)), 40)), dict(nrm, cond=0)], fitdesc=None),
        # one weight per observation ("@array": a function of the row's own values, see concrete_fitdesc):
        # the weights of a conditional variable have to be split with the intervals (D33)
        dict(name="weibull|expweibull(wlsq array weights) width0.5", units=["0.1", None],
             dims=[dict(fam="weibull", slicer=W("0.5", 30)), dict(ew2, cond=0)],
             fitdesc=[None, {"method": "wlsq", "weights": "@array"}]),
        dict(name="expweibull(wlsq array weights)|expweibull(wlsq array weights) number9", units=["0.1", None],
             dims=[dict(fam="expweibull", kw={"f_delta": 2}, slicer=Nn(9, 25)), dict(ew2, cond=0)],
             fitdesc=[{"method": "wlsq", "weights": "@array"}, {"method": "wlsq", "weights": "@array"}]),
        # chained dependence functions, the dependent declared before its conditioner (first fit and re-fit)
        dict(name="weibull|expweibull(wlsq) alpha(beta) chained width0.5", units=["0.1", None],
             dims=[dict(fam="weibull", slicer=W("0.5", 30)), dict(ewc, cond=0)],
             fitdesc=[None, {"method": "wlsq", "weights": "quadratic"}]),
        dict(name="weibull|weibull|lognormal chain 3D", units=["0.5", "0.25", None],
             dims=[dict(fam="weibull", slicer=W("1", 25)), dict(wb2, cond=0, slicer=W("0.5", 25)), dict(ln, cond=1)],
             fitdesc=[None, {"method": "mle", "weights": None}, None]),
        dict(name="weibull|lognormal|expweibull(wlsq) fan 3D", units=["0.1", None, None],
             dims=[dict(fam="weibull", slicer=W("0.5", 30)), dict(ln, cond=0), dict(ew2, cond=0)],
             fitdesc=[None, None, {"method": "wlsq", "weights": "quadratic"}]),
        dict(name="weibull|weibull points untied|normal chain 3D", units=["0.1", "0.001", None], untied=True,
             dims=[dict(fam="weibull", slicer=Nn(8, 20)), dict(wb2, cond=0, slicer=P(int(rng.integers(50, 120)), 30, lastfull=False)),
                   dict(nrm, cond=1)], fitdesc=None),
        dict(name="weibull|weibull points tied|normal chain 3D", units=["0.1", "0.1", None],
             dims=[dict(fam="weibull", slicer=Nn(8, 20)), dict(wb2, cond=0, slicer=P(int(rng.integers(50, 120)), 30, lastfull=False)),
                   dict(nrm, cond=1)], fitdesc=None),
        dict(name="weibull|normal width0.5 weighted dependence no bounds", units=["0.1", None],
             dims=[dict(fam="weibull", slicer=W("0.5", 20)), dict(nrm_w, cond=0)], fitdesc=None),
        dict(name="weibull|normal number8 weighted dependence inactive bounds", units=["0.1", None],
             dims=[dict(fam="weibull", slicer=Nn(8, 15)), dict(nrm_wb, cond=0)], fitdesc=None),
        dict(name="weibull|lognormal width0.5 weighted quadratic dependence", units=["0.1", None],
             dims=[dict(fam="weibull", slicer=W("0.5", 20)), dict(ln_q, cond=0)], fitdesc=[{"method": "mle"}, None]),
        # integer-valued observations 1..120 (exact in float64 / float32 / int64 / int16 / uint8 / int8 / float16):
        # one case per type of the data matrix (INT_DTYPES)
        dict(name="weibull|lognormal|normal fan 3D integer data", units=["1", None, None], intdata=True,
             dims=[dict(fam="weibull", slicer=W("8", 30)), dict(ln_w, cond=0), dict(nrm_wb, cond=0)], fitdesc=None),
    ]
    return out


INT_DTYPES = ("float64", "float32", "int64", "int16", "uint8", "int8", "float16")


def gen_intdata(st, n, rng):
    """integer-valued observations in 1..120 (fan structure on column 0), as float64"""
    nd = len(st["dims"])
    X = np.empty((n, nd))
    X[:, 0] = np.clip(np.ceil(22.0 * rng.weibull(1.5, n)), 1, 120)
    g = X[:, 0]
    for i in range(1, nd):
        if st["dims"][i]["cond"] != 0:
            raise Machinery("integer data are generated for fan structures only")
        if st["dims"][i]["fam"] == "lognormal":
            v = np.exp(3.0 + 0.03 * np.sqrt(g) + (0.25 - 0.001 * g) * rng.standard_normal(n))
        else:
            v = 30.0 + 0.5 * g + (14.0 - 0.08 * g) * rng.standard_normal(n)
        X[:, i] = np.clip(np.round(v), 1, 120)
    return X, {0: X[:, 0].astype(int)}


def typed(case, X):
    """the data matrix in the type of the case; the values are the same numbers"""
    dt = case.get("dtype", "float64")
    if dt == "float64":
        return X
    T = X.astype(np.dtype(dt))
    if not np.array_equal(T.astype(np.float64), X):
        raise Machinery(f"values are not exactly representable as {dt}")
    return T


def gen_data(st, n, rng, style):
    """Data from a fixed generating law of the right structure; conditioning columns on the lattice."""
    nd = len(st["dims"])
    if st.get("intdata"):
        X, ks = gen_intdata(st, n, rng)
        if style == "sorted":
            order = np.argsort(X[:, 0], kind="stable")
            X, ks = X[order], {c: k[order] for c, k in ks.items()}
        return X, ks
    X = np.empty((n, nd))
    X[:, 0] = 0.6 + 2.2 * rng.weibull(1.6, n)
    for i in range(1, nd):
        g = X[:, st["dims"][i]["cond"]]
        fam = st["dims"][i]["fam"]
        if fam == "lognormal":
            X[:, i] = np.exp(0.9 + 0.35 * g**0.6 + (0.12 + 0.2 * np.exp(-0.4 * g)) * rng.standard_normal(n))
        elif fam == "weibull":
            X[:, i] = (0.8 + 0.9 * g**0.9) * rng.weibull(2.0 + 0.15 * g, n)
        elif fam == "expweibull":
            X[:, i] = (0.5 + 0.6 * g) * rng.weibull(1.8 + 0.1 * g, n) ** 1.0 + 0.05
        else:
            X[:, i] = 1.0 + 0.8 * g + (0.3 + 0.5 * np.exp(-0.3 * g)) * rng.standard_normal(n)
    ks = {}
    for c, unit in enumerate(st["units"]):
        if unit is None:
            continue
        u = float(Decimal(unit))
        k = np.maximum(np.round(X[:, c] / u).astype(int), 1)
        if unit == "0.001" and st.get("untied"):
            # pairwise distinct conditioning values: lattice unit 0.001/4096, ties broken by a random rank
            order = np.lexsort((rng.random(n), k))
            rank = np.empty(n, dtype=int)
            prev, cnt = None, 0
            for pos in order:
                cnt = cnt + 1 if k[pos] == prev else 0
                prev = k[pos]
                rank[pos] = cnt
            k = k * 4096 + rank
            ks[c] = k
            X[:, c] = k * (0.001 / 4096)
            continue
        ks[c] = k
        X[:, c] = np.array([float(Decimal(int(v)) * Decimal(unit)) for v in k])
    if style == "sorted":
        order = np.argsort(X[:, 0], kind="stable")
        X = X[order]
        ks = {c: k[order] for c, k in ks.items()}
    return X, ks


# --------------------------------------------------------------------------- recording


class Recorder:
    def __init__(self, vc):
        self.vc = vc
        self.slices, self.fitcalls, self.depcalls = [], [], []
        self.on = True

    def __enter__(self):
        vc = self.vc
        self.IS = vc.intervals.IntervalSlicer
        self.DI = vc.distributions.Distribution
        self.DF = vc.DependenceFunction
        self.o_slice, self.o_fit, self.o_dfit = self.IS.slice_, self.DI.fit, self.DF.fit
        rec = self

        def slice_(obj, data):
            res = rec.o_slice(obj, data)
            if rec.on:
                rec.slices.append((obj, np.array(data, copy=True), res))
            return res

        def fit(obj, data, method="mle", weights=None):
            if rec.on:
                tok = "none" if weights is None else (weights if isinstance(weights, str) else "array")
                rec.fitcalls.append(dict(method=str(method), weights=tok))
            return rec.o_fit(obj, data, method, weights)

        def dfit(obj, x, y):
            if rec.on:
                rec.depcalls.append((obj, np.array(x, dtype=float, copy=True), np.array(y, dtype=float, copy=True)))
            return rec.o_dfit(obj, x, y)

        self.IS.slice_, self.DI.fit, self.DF.fit = slice_, fit, dfit
        return self

    def __exit__(self, *a):
        self.IS.slice_, self.DI.fit, self.DF.fit = self.o_slice, self.o_fit, self.o_dfit


def row_weights(data, i):
    """weights of dimension i, one per row, a function of the row's own values only (so that permuting the
    rows permutes the weights with them); not monotone in the fitted variable"""
    other = data[:, (i + 1) % data.shape[1]]
    return 0.25 + data[:, i] ** 2 * (1.0 + 0.5 * np.sin(3.0 * other))


def concrete_fitdesc(fitdesc, data):
    """replaces the "@array" marker of a fit description by the array of per-row weights for this data matrix"""
    if fitdesc is None:
        return None
    out = []
    for i, fd in enumerate(fitdesc):
        if fd is not None and isinstance(fd.get("weights"), str) and fd["weights"] == "@array":
            fd = dict(fd, weights=row_weights(np.asarray(data, dtype=float), i))
        out.append(copy.deepcopy(fd))
    return out


def fit_observed(vc, st, data, fitdesc):
    model = build_model(vc, st)
    with Recorder(vc) as rec, warnings.catch_warnings():
        warnings.simplefilter("ignore")
        model.fit(data, concrete_fitdesc(fitdesc, data))
    return model, rec


def proj_q(x, unitf):
    v = 4.0 * float(x) / unitf
    r = round(v)
    return int(r), abs(v - r) <= 1e-6 * max(1.0, abs(v))


def reldev(a, b):
    a, b = np.asarray(a, float), np.asarray(b, float)
    if a.shape != b.shape:
        return 2.0
    if a.size == 0:
        return 0.0
    return float(np.max(np.abs(a - b) / (np.abs(a) + np.abs(b) + 1e-3) * 2))


def dim_records(vc, case, rid0):
    st, n, seed = case["st"], case["n"], case["seed"]
    rng = np.random.default_rng(seed)
    data64, ks = gen_data(st, n, rng, case["style"])      # the observations (float64)
    data = typed(case, data64)                            # ... as handed to fit
    fitdesc = st["fitdesc"]
    nd = len(st["dims"])
    recs = []
    base = dict(exc="")
    try:
        m1, r1 = fit_observed(vc, st, data, fitdesc)
        perm = rng.permutation(n)
        m2, r2 = fit_observed(vc, st, data[perm], fitdesc)
        other, _ = gen_data(st, max(300, n // 2), np.random.default_rng(seed + 1), "shuffled")
        other = typed(case, other)
        m3 = build_model(vc, st)
        with warnings.catch_warnings():
            warnings.simplefilter("ignore")
            m3.fit(other, concrete_fitdesc(fitdesc, other))
        with Recorder(vc) as r3, warnings.catch_warnings():
            warnings.simplefilter("ignore")
            m3.fit(data, concrete_fitdesc(fitdesc, data))
    except RuntimeError as e:
        if "Failed to fit dependence function" in str(e):
            # documented outcome of a non-converging dependence fit: nothing to judge
            return [dict(id=rid0, kind="model", exc="", fitdesc=[], ncalls=[], calls=[], skipped=True)], 1
        return [dict(id=rid0, kind="model", exc=f"{type(e).__name__}: {e}"[:300], fitdesc=[], ncalls=[], calls=[])], 1
    except Exception as e:  # noqa
        return [dict(id=rid0, kind="model", exc=f"{type(e).__name__}: {e}"[:300], fitdesc=[], ncalls=[], calls=[])], 1
    cond_dims = [i for i in range(nd) if st["dims"][i].get("cond") is not None]
    if not (len(r1.slices) == len(r2.slices) == len(r3.slices) == len(cond_dims)):
        return [dict(id=rid0, kind="model", exc="slicer not called once per conditional dimension (wrapper saw "
                     f"{len(r1.slices)})", fitdesc=[], ncalls=[], calls=[])], 1
    ncalls = [1] * nd
    depi = 0
    rid = rid0
    for si, i in enumerate(cond_dims):
        c = st["dims"][i]["cond"]
        sl = st["dims"][c]["slicer"]
        unit = st["units"][c]
        k = ks[c]
        cd1, cd2, cd3 = m1.distributions[i], m2.distributions[i], m3.distributions[i]
        obj, col, (masks, refs, bnds) = r1.slices[si]
        _, col2, (masks2, _, _) = r2.slices[si]
        _, col3, (masks3, _, _) = r3.slices[si]
        fd = fitdesc[i] if fitdesc is not None and fitdesc[i] is not None else {"method": "mle", "weights": None}
        method, weights = fd["method"], fd.get("weights")
        rec = dict(base, id=rid, kind="dim", dim=i, kind2=sl["kind"], ropen=sl.get("ropen", True), incmax=sl.get("incmax", True),
                   n=sl.get("n", 1), lastfull=sl.get("lastfull", True), minpts=sl["minpts"], refkind=sl.get("ref", "center"),
                   method=method)
        if sl["kind"] == "points":
            rec["refkind"] = "median"
            rec["minpts"] = min(sl["minpts"], sl["n"])
        if sl["kind"] == "width":
            upw = int(Decimal(sl["w"]) / Decimal(unit))
            if Decimal(upw) * Decimal(unit) != Decimal(sl["w"]):
                raise Machinery("width is not a multiple of the lattice unit")
            vr = sl.get("vr")
            rec.update(upw=upw, lo=(int(vr[0]) if vr else 0), hi=(int(vr[1]) if vr else int(k.max())), cdata=[int(v) for v in k],
                       exact=(sl["w"] in ("0.5", "1", "0.25", "2") and unit in ("0.5", "0.25", "1")))
            unitf = float(Decimal(unit))
        elif sl["kind"] == "number":
            nn = sl["n"]
            vr = sl.get("vr")
            klo, khi = (int(vr[0]), int(vr[1])) if vr else (int(k.min()), int(k.max()))
            rec.update(upw=int(khi - klo), lo=int(nn * klo), hi=int(nn * khi),
                       cdata=[int(nn * v) for v in k], exact=False)
            unitf = float(Decimal(unit)) / nn
        else:
            rec.update(upw=1, lo=0, hi=int(k.max()), cdata=[int(v) for v in k], exact=True)
            unitf = float(Decimal(unit)) / (4096 if (unit == "0.001" and st.get("untied")) else 1)
        if not np.array_equal(np.asarray(col, dtype=np.float64), data64[:, c]):
            rec["exc"] = "slicer received a different column than data[:, conditional_on]"
        rec["masks"] = [[int(b) for b in np.asarray(m).astype(int)] for m in masks]
        onlat = True
        refq, loq = [], []
        for r_, (blo, bhi) in zip(refs, bnds):
            q, ok = proj_q(r_, unitf)
            q2, ok2 = proj_q(blo, unitf)
            onlat = onlat and ok and ok2
            refq.append(q)
            loq.append(q2)
        rec.update(refq=refq, loq=loq, onlat=bool(onlat))
        from .c10 import _bounds_bits
        ends = {"width": ("ropen" if sl.get("ropen", True) else "lopen"),
                "number": ("ropen+last" if sl.get("incmax", True) else "ropen"), "points": "closed"}[sl["kind"]]
        contain, disjoint = _bounds_bits(np.asarray(col, dtype=float), masks, [(float(a), float(b)) for a, b in bnds], 0.0, ends)
        rec.update(boundscontain=bool(contain), boundsdisjoint=bool(disjoint))
        # the data of each interval handed to the per-interval fits
        di = cd1.data_intervals
        rec["datamasked"] = [bool(np.array_equal(np.asarray(di[t]), data[np.asarray(masks[t], bool), i]))
                             for t in range(min(len(di), len(masks)))] + [False] * abs(len(di) - len(masks))
        # stand-alone fit of a copy of the template on exactly these observations
        sa = []
        for t in range(len(di)):
            d0 = copy.deepcopy(cd1.distribution)
            wt = weights
            if isinstance(weights, str) and weights == "@array":
                # exactly the weights of the observations of this interval
                wt = row_weights(np.asarray(data, dtype=float), i)[np.asarray(masks[t], bool)]
            with warnings.catch_warnings():
                warnings.simplefilter("ignore")
                d0.fit(np.asarray(di[t]), method, wt)
            sa.append(bool(d0.parameters == cd1.parameters_per_interval[t]))
        rec["standalone"] = sa
        # ... and, for the families whose maximum-likelihood estimate is a closed form, the exact MLE (double
        # precision, computed here) of exactly the observations of the interval, whatever the type of the matrix
        fam = st["dims"][i]["fam"]
        mledev = []
        if fam in ("normal", "lognormal") and method == "mle":
            for t in range(min(len(masks), len(cd1.parameters_per_interval))):
                p_ = cd1.parameters_per_interval[t]
                ref_ = closed_form_mle(fam, data64[np.asarray(masks[t], bool), i])
                mledev.append(Qc(reldev([float(p_["mu"]), float(p_["sigma"])], ref_), 1e9, 0, 2 * 10**9))
        rec["mledev"] = mledev
        ncalls[i] = len(masks)
        # dependence function inputs
        ndep = len(st["dims"][i]["deps"])
        rec["ndep"] = ndep
        depx, depyok = [], []
        mine = r1.depcalls[depi:depi + ndep]
        depi += ndep
        names = list(cd1.conditional_parameters.keys())
        for (o, x, y) in mine:
            depx.append([proj_q(v, unitf)[0] for v in x])
            pn = [nm for nm in names if cd1.conditional_parameters[nm] is o]
            ok = len(pn) == 1 and len(y) == len(cd1.parameters_per_interval) and \
                all(float(y[t]) == float(cd1.parameters_per_interval[t][pn[0]]) for t in range(len(y)))
            depyok.append(bool(ok))
        rec.update(depx=depx, depyok=depyok)
        # linear-in-parameters dependence functions: the fitted parameters against the closed-form (weighted)
        # least-squares solution for the (interval reference value, estimate) pairs of this fit
        wdepdev, wdepsep = [], []
        xs64 = np.asarray([float(v) for v in refs], dtype=np.float64)
        for pn, f in st["dims"][i]["deps"].items():
            ys64 = np.asarray([float(p_[pn]) for p_ in cd1.parameters_per_interval], dtype=np.float64)
            if len(ys64) != len(xs64):
                continue
            sol = linear_reference(f, xs64, ys64)
            if sol is None:
                continue
            got = [float(v) for v in cd1.conditional_parameters[pn].parameters.values()]
            wdepdev.append(Qc(reldev(got, sol), 1e9, 0, 2 * 10**9))
            if parse_dep(f)[1] is not None:
                # how far the unweighted solution is from the weighted one (the case tells them apart)
                wdepsep.append(Qc(reldev(linear_reference(f.split("/")[0], xs64, ys64), sol), 1e9, 0, 2 * 10**9))
        rec.update(wdepdev=wdepdev, wdepsep=wdepsep)
        # membership as row ids; permuted and re-fitted models
        rec["members"] = [[int(j) for j in np.nonzero(np.asarray(m, bool))[0]] for m in masks]
        rec["permmembers"] = [sorted(int(perm[j]) for j in np.nonzero(np.asarray(m, bool))[0]) for m in masks2]
        rec["refitmembers"] = [[int(j) for j in np.nonzero(np.asarray(m, bool))[0]] for m in masks3]

        def est(cd):
            return [[float(v) for v in p.values()] for p in cd.parameters_per_interval]

        def depp(cd):
            return [float(v) for f in cd.conditional_parameters.values() for v in f.parameters.values()]

        rec["permestdev"] = Qc(reldev(est(cd1), est(cd2)), 1e9, 0, 2 * 10**9)
        rec["permdepdev"] = Qc(reldev(depp(cd1), depp(cd2)), 1e9, 0, 2 * 10**9)
        rec["refitdepdev"] = Qc(reldev(depp(cd1), depp(cd3)), 1e9, 0, 2 * 10**9)
        rec["refitestdev"] = Qc(reldev(est(cd1), est(cd3)), 1e9, 0, 2 * 10**9)
        # the re-fitted dependence functions fit THIS fit's (reference, estimate) pairs as well as those of the fresh
        # model do (squared error relative to sum(y^2), 1e-9 units; parameters may differ along flat valleys)
        xs_ = np.asarray(cd1.conditioning_values, dtype=float)
        fo, ro = [], []
        for pn in cd1.conditional_parameters:
            ys_ = np.asarray([p_[pn] for p_ in cd1.parameters_per_interval], dtype=float)
            sc_ = max(float(np.sum(ys_ ** 2)), 1e-300)
            with np.errstate(all="ignore"):
                fo.append(Qc(float(np.sum((np.asarray(cd1.conditional_parameters[pn](xs_), dtype=float) - ys_) ** 2)) / sc_, 1e9, 0, 2 * 10**9))
                v3 = float(np.sum((np.asarray(cd3.conditional_parameters[pn](xs_), dtype=float) - ys_) ** 2)) / sc_
                ro.append(Qc(v3 if v3 == v3 else np.inf, 1e9, 0, 2 * 10**9))
        rec.update(freshobj=fo, refitobj=ro)
        recs.append(rec)
        rid += 1
    fdl = []
    for i in range(nd):
        fd = None if fitdesc is None else fitdesc[i]
        if fd is None:
            fdl.append(dict(method="none", weights="none"))
        else:
            w = fd.get("weights")
            fdl.append(dict(method=fd["method"], weights="none" if w is None else ("array" if w == "@array" else w)))
    recs.append(dict(id=rid, kind="model", exc="", fitdesc=fdl, ncalls=ncalls, calls=r1.fitcalls))
    return recs, len(recs)


def gen_cases(ctx):
    rng = np.random.default_rng(ctx.seed + 9)
    sts = structures(rng)
    reps = ctx.pick(1, 6)
    out = []
    for rep in range(reps):
        for si, st in enumerate(sts):
            n = int(rng.choice([300, 600, 1500, 3000] if ctx.quick else [300, 1000, 3000, 8000, 20000]))
            for d in st["dims"]:
                if d.get("slicer", {}).get("kind") == "points":
                    n = max(n, 8 * d["slicer"]["n"])
            if st.get("intdata"):
                for di, dt in enumerate(INT_DTYPES):
                    n = int(rng.choice([500, 800, 1200] if ctx.quick else [500, 1500, 5000, 20000]))
                    out.append(dict(st=st, si=si, n=n, style=["shuffled", "sorted"][(rep + di) % 2], seed=int(rng.integers(0, 2**31)),
                                    dtype=dt))
                continue
            out.append(dict(st=st, si=si, n=n, style=["shuffled", "sorted"][(rep + si) % 2], seed=int(rng.integers(0, 2**31))))
    return out


def case_id(c):
    """what identifies a case (everything but the structure dict, which structures() rebuilds from si)"""
    return {k: c[k] for k in ("si", "n", "style", "seed", "dtype") if k in c}


def key_of(c):
    return (f"structure={c['st']['name']} n={c['n']} order={c['style']} seed={c['seed']}"
            + (f" dtype={c['dtype']}" if "dtype" in c else ""))


def run(ctx):
    vc = import_virocon()
    ctx.rule = ("20 model structures (2-D/3-D; chain and fan; width / number / points slicers with option variants; MLE and WLSQ; "
                "fit descriptions None / partial; dependence functions with a weights callable declared with and without bounds) "
                "x data sizes x sorted/shuffled rows with conditioning values rounded to a lattice "
                "(ties); one structure with integer observations 1..120 x type of the data matrix (float64, float32, int64, int16, "
                "uint8, int8, float16); each case = fit, fit of row-permuted data, fit-other-then-refit; "
                "distinct = (structure, n, order, seed, dtype); one record per conditional dimension plus one per model")
    ctx.trusted = ["TLC evaluating SlicingOps / Trace_C09", "recording wrappers around IntervalSlicer.slice_, Distribution.fit, "
                   "DependenceFunction.fit installed by the harness (the masks are bound to the fitted data by FitDataAreMaskedRows)",
                   "numpy float64 mean / log / sqrt / linalg.lstsq (closed-form MLE of the normal and log-normal family; "
                   "weighted least squares of linear-in-parameters dependence functions on sqrt(w)-scaled rows)"]
    ctx.assumptions = ["MLE estimates of permuted data are compared at 2e-3 relative (Nelder-Mead tolerance), least-squares estimates at 1e-6",
                       "a conditioning value on an ideal interval edge may belong to either neighbour for non-dyadic widths",
                       "the weights callable of a DependenceFunction weights the squared residuals: sum(w_i * (f(x_i) - y_i)**2) "
                       "(documented meaning), whether or not bounds are declared; a dependence function whose closed-form optimum "
                       "touches its bounds is not judged against it"]
    ctx.model_check("JointFit", "MC_JointFit_quick.cfg", must_cover=("FitDim",), timeout=3000)
    ctx.model_check("JointFit", ctx.pick("MC_JointFit_3d.cfg", "MC_JointFit_thorough.cfg"), timeout=3000)
    if not ctx.quick:
        ctx.model_check("JointFit", "MC_JointFit_3d.cfg", timeout=3000)
    ctx.model_check("JointFit", "MC_JointFit_mut.cfg", expect_violation="IntervalOwnData")
    ctx.model_check("JointFit", "MC_JointFit_mutw.cfg", expect_violation="IntervalOwnWeights")
    cases = gen_cases(ctx)
    allrecs, owner = [], {}
    rid = 1
    for c in cases:
        recs, k = dim_records(vc, c, rid)
        for r in recs:
            owner[r["id"]] = c
        allrecs.extend(recs)
        rid += k
    # self-test of the two reference clauses: a copy of a judged record, one deviation just beyond its tolerance each
    src = next((r for r in allrecs if r["kind"] == "dim" and r["exc"] == "" and r["mledev"] and r["wdepdev"]), None)
    probe = []
    if src is not None:
        probe = [dict(src, id=rid, mledev=[1001] + src["mledev"][1:], wdepdev=src["wdepdev"][:-1] + [100001])]
    failing = ctx.validate("Trace_C09", "Trace_C09.cfg", allrecs + probe, xss="512m", chunk=ctx.pick(80, 60))
    if probe:
        got = set(failing.pop(rid, []))
        if not {"EstimateIsClosedFormMLE", "DependenceIsWeightedLeastSquares"} <= got:
            raise Machinery(f"self-test: the corrupted record was rejected for {sorted(got)} only")
    for r in allrecs:
        c = owner[r["id"]]
        ctx.case(key_of(c) + f" rec={r['kind']}{r['id']}", nontrivial=(r["exc"] == "" and not r.get("skipped")))
        for clause in failing.get(r["id"], []):
            extra = ""
            if r["kind"] == "dim":
                extra = (f" slicer={r['kind2']} K={len(r['masks'])} permestdev={r['permestdev']} permdepdev={r['permdepdev']} "
                         f"refitdepdev={r['refitdepdev']} standalone={r['standalone']} datamasked={r['datamasked']} "
                         f"mledev={r['mledev']} wdepdev={r['wdepdev']} wdepsep={r['wdepsep']}")
            ctx.violation(clause, key_of(c) + (f" dim={r['dim']} slicer={r['kind2']}" if r["kind"] == "dim" else " model"),
                          f"exc={r['exc']}{extra}", replay=case_id(c))
    d0 = next(r for r in allrecs if r["kind"] == "dim")
    ctx.sample({"case": key_of(owner[d0["id"]]), "dim_record": {k: (v if not isinstance(v, list) or len(str(v)) < 300 else str(v)[:300] + "...")
                                                                    for k, v in d0.items()}})
    ctx.sample({"model_record": next(r for r in allrecs if r["kind"] == "model")})
    ctx.notes["model_fits"] = 4 * len(cases)
    ctx.notes["dimension_records"] = sum(1 for r in allrecs if r["kind"] == "dim")
    dims = [r for r in allrecs if r["kind"] == "dim" and r["exc"] == ""]
    ctx.notes["closed_form_mle_intervals"] = sum(len(r["mledev"]) for r in dims)
    ctx.notes["closed_form_mle_intervals_by_dtype"] = {
        dt: sum(len(r["mledev"]) for r in dims if owner[r["id"]].get("dtype") == dt) for dt in INT_DTYPES}
    ctx.notes["linear_dependence_fits_judged"] = sum(len(r["wdepdev"]) for r in dims)
    ctx.notes["weighted_dependence_fits_judged"] = sum(len(r["wdepsep"]) for r in dims)
    # vacuity: the weighted cases tell the weighted from the unweighted solution (100 x the tolerance of the clause)
    ctx.notes["weighted_dependence_fits_separating"] = sum(1 for r in dims for v in r["wdepsep"] if v > 100 * 100000)
    if not ctx.violations and (ctx.notes["weighted_dependence_fits_separating"] < 6 or ctx.notes["closed_form_mle_intervals"] < 50):
        raise Machinery("vacuous: too few weighted dependence fits that differ from the unweighted solution / closed-form MLE intervals")


def replay(ctx, case):
    vc = import_virocon()
    c = case["case"]
    st = structures(np.random.default_rng(ctx.seed + 9))[c["si"]]
    cc = dict(case_id(c), st=st)
    recs, _ = dim_records(vc, cc, 1)
    failing = ctx.validate("Trace_C09", "Trace_C09.cfg", recs, xss="512m")
    for r in recs:
        ctx.case(key_of(cc) + f" rec={r['kind']}{r['id']}")
        for clause in failing.get(r["id"], []):
            ctx.violation(clause, key_of(cc), f"exc={r['exc']}", replay=c)
