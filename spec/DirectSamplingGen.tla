-------------------------- MODULE DirectSamplingGen --------------------------
(* Leg R of C03: configuration cases for the driver.  TLC enumerates deg_step (all    *)
(* admissible divisors of 360), the sample class and the alpha class; the driver       *)
(* supplies the seeded data for the class and runs the real DirectSamplingContour.     *)
EXTENDS Integers, TLC, Json
CONSTANTS Steps
SampleClasses == {"model", "model_default_n", "stub_default_n", "gauss", "ties", "heavy", "ring",
                  "int64", "int32", "float32",          \* supplied sample that is not float64
                  "pareto02", "t025", "outlier"}        \* very heavy tails / one point at 1e15..1e17
AlphaClasses == {"tiny", "small", "mid", "large"}
VARIABLE g
Init == g \in [deg_step : Steps, cls : SampleClasses, alpha : AlphaClasses]
Next == UNCHANGED g
Spec == Init /\ [][Next]_g
Emit == PrintT(<<"BEH", ToJson(g)>>)
=============================================================================
