"""C05: WeibullDistribution.pdf returns nan (not the density, which is 0 to double
precision) in the upper tail when ((x - gamma) / alpha)**(beta - 1) overflows."""
import math
import sys
import numpy as np
from virocon import WeibullDistribution, ExponentiatedWeibullDistribution
from virocon.distributions import ConditionalDistribution
from virocon import DependenceFunction


def log_pdf(x, alpha, beta, gamma):
    # documented formula, evaluated in log space with Python floats (independent oracle)
    t = (x - gamma) / alpha
    return math.log(beta / alpha) + (beta - 1) * math.log(t) - math.exp(beta * math.log(t)) if beta * math.log(t) < 700 else -math.inf


violations = 0
cases = [
    # alpha, beta, gamma, x
    (1.0, 100.0, 0.0, 1300.0),
    (2.0, 300.0, 0.5, 25.0),
    (1.0, 1000.0, 0.0, 2.1),
    (10.0, 60.0, 0.0, 2.0e6),
]
for alpha, beta, gamma, x in cases:
    dist = WeibullDistribution(alpha, beta, gamma)
    got = dist.pdf(x)
    got_explicit = WeibullDistribution().pdf(x, alpha=alpha, beta=beta, gamma=gamma)
    expected = 0.0 if log_pdf(x, alpha, beta, gamma) < -745 else math.exp(log_pdf(x, alpha, beta, gamma))
    cdf = dist.cdf(x)  # is exactly 1 there: x is inside the support, far in the upper tail
    # the exponentiated Weibull with delta = 1 and gamma = 0 is the same distribution
    print(f"alpha={alpha} beta={beta} gamma={gamma} x={x}: pdf={got} explicit={got_explicit} "
          f"expected={expected} cdf={cdf}")
    if not (got == expected) or not (got_explicit == expected):
        violations += 1

# the same point inside an array: one nan among ordinary densities
arr = WeibullDistribution(1.0, 100.0, 0.0).pdf(np.array([0.5, 1.0, 1.05, 1300.0, 1e4]))
print("array:", arr)
if np.isnan(arr).any():
    violations += 1

# same distribution through the exponentiated Weibull (delta = 1): correct 0
print("ExponentiatedWeibull(1, 100, 1).pdf(1300) =", ExponentiatedWeibullDistribution(1, 100, 1).pdf(1300.0))

# C08 path: conditional Weibull evaluated at many (x, g) pairs, as the joint pdf /
# highest density contour does on its grid
cond = ConditionalDistribution(
    WeibullDistribution(f_gamma=0.0),
    {"alpha": DependenceFunction(lambda g, a=1.0: a + 0 * g), "beta": DependenceFunction(lambda g, a=20.0, b=40.0: a + b * g)},
)
dens = cond.pdf(np.array([1.0, 1500.0, 1500.0]), np.array([2.0, 2.0, 0.5]))
print("conditional:", dens)
if np.isnan(dens).any():
    violations += 1

sys.exit(1 if violations else 0)
