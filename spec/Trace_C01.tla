----------------------------- MODULE Trace_C01 -----------------------------
(* Trace validation for C01.  One record = one IFORM or ISORM contour of a real           *)
(* GlobalHierarchicalModel, mapped back into standard-normal space BY THE DRIVER with     *)
(* the model's own distributions' cdf and the declared structure (Phi^-1 from             *)
(* statistics.NormalDist) -- this is InverseRosenblatt of Rosenblatt.tla evaluated on      *)
(* measured values.  A second kind of record ("probe") carries, for dimensions whose      *)
(* dependence is a pure location/scale shift, the measured shift of every contour point   *)
(* and the shift each candidate conditioning column would induce (IcdfStep on measured     *)
(* values: the step must have read column cond[i]).                                       *)
(*                                                                                        *)
(* Histories (RosenblattHist.tla): the second contour of a model that was modified through *)
(* an inner object between two identical requests is an ordinary contour record of the      *)
(* CURRENT model.  Its radii are measured twice: r through the cdfs of the model object      *)
(* itself (array-valued given), rfresh through the cdfs of a model constructed afresh from  *)
(* the current parameters (fresh = TRUE announces the second map); both are "the model's    *)
(* own cdfs" of the property, the second owes nothing to what earlier calls left behind.    *)
(*                                                                                        *)
(* Scales: radii, beta: 10^7; unit directions: 10^4; angles: micro-degrees; shifts 10^5.  *)
EXTENDS RosenblattOps, Json, IOUtils, TLC

TraceLog == ndJsonDeserialize(IOEnv.TRACE_FILE)
VARIABLE l

(* Tolerance on |r - beta| in units of 10^-7.  The contour is built from p = Phi(u) and    *)
(* mapped back through cdf; both lose the spacing of doubles next to 1 (1.1e-16) divided  *)
(* by the normal density phi(beta) in u:  beta<=5: < 1e-9, beta<=6: 1.4e-7 for 8 ulp,      *)
(* beta<=6.6: 8 ulp / phi(6.6) = 6e-6, beta<=7: 1e-4.  Floor 1e-6 covers the generic       *)
(* numerical inversion (brentq, xtol 1e-14) of families without a closed-form ppf.        *)
(* Measured on 336 contours: <= 3e-9 at beta 5.6, <= 2.4e-7 at beta 6.1.  A wrong column,  *)
(* a wrong number of degrees of freedom or alpha <-> 1-alpha move r by >= 1e-2.           *)
RadiusTol(beta) == IF beta <= 50000000 THEN 10
                   ELSE IF beta <= 60000000 THEN 20
                   ELSE IF beta <= 66000000 THEN 200
                   ELSE IF beta <= 70000000 THEN 2000 ELSE 100000

Turn == 360000000
IdealAngle(k, n) == (Turn \div n) * k + ((Turn % n) * k) \div n       \* k * 360e6 / n without overflow
AngDiff(a, b) == LET d == Abs(a - b) % Turn IN Min2(d, Turn - d)
(* an error e in u turns the direction by e / beta radians: tolerance (micro-degrees) =    *)
(* RadiusTol * 1e-7 / beta * 180e6/pi = RadiusTol * 5730 / (beta in 1e-3 units), + 2 for   *)
(* the rounding of the two angles                                                        *)
AngTol(beta) == (RadiusTol(beta) * 5730) \div (beta \div 10000) + 2

N(r) == Len(r.r)
Directed(r) == r.betaref >= 100000          \* beta >= 0.01: directions are defined

ContourClauses(r) ==
  IF ~r.finite THEN << <<"CoordinatesFinite", FALSE>> >>
  ELSE <<
    <<"Count", r.shapeok /\ N(r) = r.npoints /\ Len(r.dirs) = r.npoints>>,
    <<"BetaIsRef", Within(r.beta, r.betaref, 2)>>,
    <<"RadiusIsBeta", /\ \A k \in 1..N(r) : Within(r.r[k], r.betaref, RadiusTol(r.betaref))
                      /\ r.fresh => Len(r.rfresh) = N(r)
                      /\ \A k \in 1..Len(r.rfresh) : Within(r.rfresh[k], r.betaref, RadiusTol(r.betaref))>>,
    <<"DirectionsDistinct", Directed(r) => Cardinality({r.dirs[k] : k \in 1..Len(r.dirs)}) = Len(r.dirs)>>,
    <<"AnglesEquallySpaced", r.ndim = 2 /\ Directed(r) =>
         /\ Len(r.ang) = r.npoints
         /\ \A k \in 1..Len(r.ang) : AngDiff(r.ang[k], IdealAngle(k - 1, r.npoints)) <= AngTol(r.betaref)>>,
    <<"MaxIsMarginalQuantile", r.ndim = 2 /\ r.method = "iform" =>
         /\ Within(r.umax, r.betaref, RadiusTol(r.betaref))
         /\ (Directed(r) => r.argmax = 1)>>
  >>

(* probe: shift = measured x_i (or ln x_i) minus the same quantile at given = 0;           *)
(* cands[c] = dep(x_c) - dep(0) for every earlier column c; decl = declared column.        *)
(* tolerance 2e-5 + 1e-7 relative (float error of the difference of two quantiles)        *)
ProbeClauses(r) ==
  << <<"ProbeColumn", \A k \in 1..Len(r.entries) :
          LET e == r.entries[k] IN WithinRel(e.shift, e.cands[e.decl], 2, 10000000)>> >>

(* a structure with conditional_on[i] >= i (ReadsOnlyComputed of Rosenblatt.tla excludes it: the   *)
(* step would read a value that is not computed yet) must be refused by the constructor        *)
RejectClauses(r) == << <<"InadmissibleStructureRejected", ~r.accepted /\ r.exc = "ValueError">> >>

Clauses(r) == CASE r.kind = "contour" -> ContourClauses(r)
                [] r.kind = "probe" -> ProbeClauses(r)
                [] r.kind = "reject" -> RejectClauses(r)
Verdict(r) == Failing(Clauses(r))

Init == l = 1
Next == /\ l <= Len(TraceLog)
        /\ LET r == TraceLog[l] v == Verdict(r) IN
             \* one short line per failing clause: TLC wraps tuples longer than 80 columns
             \A c \in 1..Len(v) : PrintT(<<"VERDICT", r.id, <<v[c]>>>>)
        /\ l' = l + 1
Spec == Init /\ [][Next]_l
Consumed == l = Len(TraceLog) + 1 => PrintT(<<"CONSUMED", l - 1>>)
=============================================================================
