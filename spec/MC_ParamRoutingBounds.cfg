SPECIFICATION Spec
CONSTANTS ClipInit = FALSE
CHECK_DEADLOCK FALSE
INVARIANT BoundsDoNotInfluenceEvaluation
INVARIANT Emit
