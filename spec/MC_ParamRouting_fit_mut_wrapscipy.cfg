SPECIFICATION Spec
CONSTANTS Scen = "fit"  NGiven = 2  MutKind = "wrap"  MutFam = "ScipyVonMises"  MutName = "none"
CHECK_DEADLOCK FALSE
INVARIANT FixedHonoured
