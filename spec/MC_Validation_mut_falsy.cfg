SPECIFICATION Spec
CONSTANTS BaseSet = {1,2,3,4,5,6,7,8,9}  PairBaseSet = {}  HierarchyCheck = TRUE  Shortcut = "falsyfixed"
CHECK_DEADLOCK FALSE
INVARIANT RejectedNotComputed
