SPECIFICATION Spec
CONSTANTS MaxN = 3  K = 3  Shapes = {1,2,3,4}  Mut = "none"  EmitCfg = FALSE
CHECK_DEADLOCK FALSE
INVARIANT InverseRosenblattNow
INVARIANT MapsIncreasing
