SPECIFICATION Spec
CONSTANTS NPts = 3  Need = 5  CacheFeedsMarginal = TRUE  ThreadMarginal = TRUE
CHECK_DEADLOCK FALSE
INVARIANT Reproducible
INVARIANT UnseededDiffer
INVARIANT SeedsDiffer
